"""C05 — grammar analysis is exact: productions, minimum depths, recursion, reachability."""
from __future__ import annotations

import json

from harness import core, flow, grammars
from harness.core import clist
from harness.props import grammar_common as gc

TRUSTED = [
    "Coq 8.16.1 kernel; vm_compute for generated cases; no native_compute",
    "model: coq/Model/Grammar.v (reg = register_type, dist_loop = preprocess distances, reach_n = reachability, usable), hand-written from grammar/grammar.py and grammar/utils.py",
    "specification: coq/Spec/WellTyped.v (derivations WT, depth vdepth) for the theorems; coq/Check/GrammarCheck.v Section Spec05 (bounded derivability, relational closure) for the contract evaluated on observed Grammar objects",
    "exactness of minimum depths is proved for the default depth mode; in expansion-depthing mode only the correspondence (model = implementation) is checked",
    "correspondence harness: harness/props/c05.py, harness/drivers/grammar.py (hierarchies materialised as real Python modules; three PYTHONHASHSEED values)",
]


def to_coq(c, o):
    if "exc" in o:
        # the whole case failed inside the implementation (e.g. it did not return): an observable, not a harness error
        return f"KGram5 {grammars.c_decl(c['decl'])} [PErr {core.cerr(o['exc'])}] None"
    obs = clist(gc.c_pyres_gobs(x) for x in o["ok"]["extractions"])
    u = o["ok"].get("usable")
    return f"KGram5 {grammars.c_decl(c['decl'])} {obs} {'None' if u is None else '(Some ' + gc.c_pyres_gobs(u) + ')'}"


def hier(classes, considered=None, start=0, xdepth=False):
    return {"classes": classes, "considered": considered if considered is not None else list(range(len(classes))), "start": start, "xdepth": xdepth}


def A(parent=None, deco=False):
    return {"parent": parent, "abs": "deco" if deco else "abc", "fields": [], "weight": None}


def P(parent, *fields):
    return {"parent": parent, "abs": None, "fields": list(fields), "weight": None}


S = lambda i: ["sym", i]  # noqa: E731
INT = ["base", "int"]
BOOL = ["base", "bool"]

# witnesses of the known findings (run first)
F10_WITNESS = hier([A(), P(0), P(0, ["ann", ["list", S(0)], ["listsize", 0, 2, True]])])         # R -> Leaf | L(xs: list[R] of size 0..2)
F10_WITNESS_B = hier([A(), P(0, ["list", S(0)])])                                                # R -> L(xs: list[R]) only: L([]) has depth 1, reported unproductive
F35_WITNESS = hier([A(), P(0, S(3)), A(), P(2)], considered=[0, 1, 2, 3])                         # S -> P1(x: C), C(A2): A2 is not reachable from S


def boundary_cases():
    out = []
    # unions: min over alternatives; bool fields; tuples; recursion through tuples/lists/unions; nested abstract layers
    out.append(hier([A(), P(0), P(0, ["union", [S(1), S(0)]])]))
    out.append(hier([A(), P(0, BOOL), P(0, ["tuple", [INT, S(0)]])]))
    out.append(hier([A(), P(0, ["tuple", [S(0), INT]]), P(0)]))
    out.append(hier([A(), A(0, True), A(1, True), P(2), P(1, S(0)), P(0, ["list", S(2)])]))
    out.append(hier([A(), P(0, S(2)), A(), P(2, S(0)), P(2)]))                     # mutual recursion
    out.append(hier([A(), P(0, S(2)), A(), P(2, S(2))]))                           # unproductive symbol
    out.append(hier([A(), P(0), P(0, S(0), S(0)), P(None, INT)], considered=[1, 2, 3]))   # unreachable standalone class, start not considered
    out.append(hier([A(), P(0, ["ann", ["list", S(0)], ["listsize", 1, 2, True]]), P(0)]))
    out.append(hier([A(), P(0, ["list", INT]), P(0, ["union", [INT, ["list", S(0)]]])]))
    res = []
    for d in out:
        for xd in (False, True):
            res.append({"op": "extract", "decl": dict(d, xdepth=xd), "times": 1, "usable": True})
    return res


def gen(seed, tier):
    r = flow.rng(seed, "c05")
    big = tier == "thorough"
    cases = [{"op": "extract", "decl": F10_WITNESS, "times": 1, "usable": True},
             {"op": "extract", "decl": F10_WITNESS_B, "times": 1, "usable": False},
             {"op": "extract", "decl": F35_WITNESS, "times": 1, "usable": True}]
    cases += boundary_cases()
    for i in range(900 if big else 260):
        d = grammars.gen_decl(r, {"weights": False if i % 3 else None, "tuples": True, "dependent": False})
        c = {"op": "extract", "decl": d, "times": 1, "usable": r.random() < 0.6}
        if i % 4 == 0 and not any(cl.get("weight") for cl in d["classes"]):
            c["interleave"] = [k for k in d["considered"] if r.random() < 0.6]
            c["usable"] = False
        cases.append(c)
    return cases


def describe(c, o):
    ex = o.get("ok", {}).get("extractions", [{}])[0]
    ob = ex.get("ok", ex)
    short = {k: ob.get(k) for k in ("alts", "dist", "rec")} if isinstance(ob, dict) and "alts" in ob else ob
    return ("classes:\n" + grammars.source(c["decl"])[len(grammars.HEADER):] + f"considered={c['decl']['considered']} start=C{c['decl']['start']} expansion_depthing={c['decl']['xdepth']}"
            + (" (re-observed after extracting another grammar over the same classes)" if c.get("interleave") is not None else "")
            + " -> observed " + json.dumps(short)[:700] + (" usable_grammar: " + json.dumps(o.get("ok", {}).get("usable", {}).get("ok", o.get("ok", {}).get("usable", {})).get("nodes") if isinstance(o.get("ok", {}).get("usable", {}).get("ok", None), dict) else o.get("ok", {}).get("usable"))[:300] if c.get("usable") else ""))


def nontrivial(c, o):
    if "ok" not in o:
        return False
    e = o["ok"]["extractions"]
    return "ok" in e[0] and len(e[0]["ok"]["nodes"]) >= 4 and any(len(vs) >= 2 for _, vs in e[0]["ok"]["alts"])


GEML_CODING = ["geml.grammars.coding.classes", "geml.grammars.coding.conditions", "geml.grammars.coding.control_flow", "geml.grammars.coding.lists",
               "geml.grammars.coding.logical_ops", "geml.grammars.coding.numbers"]
SHIPPED = [   # grammars shipped in geml.grammars, the examples and the tests (real classes, reflected into the model's declarations by the driver)
    {"modules": ["geml.grammars.sgp"], "start": "Number"},
    {"modules": ["geml.grammars.sgp", "geml.grammars.basic_math"], "start": "Number"},
    {"modules": ["geml.grammars.sgp", "geml.grammars.literals"], "start": "Number"},
    {"modules": ["geml.grammars.sgp", "geml.grammars.basic_math", "geml.grammars.literals"], "start": "Number"},
    {"modules": ["geml.grammars.letter"], "start": "String"},
    {"modules": ["geml.grammars.regex"], "start": "RE"},
    {"modules": ["geml.grammars.symbolic_regression"], "start": "Expression"},
    {"modules": GEML_CODING, "start": "Statement"},
    {"modules": ["examples.santafe"], "start": "ActionMain", "considered": ["ActionBlock", "Action", "IfFood", "Move", "Right", "Left"]},
    {"modules": ["examples.string_match"], "start": "String", "considered": ["LetterString", "Char", "Vowel", "Consonant"]},
    {"modules": ["examples.binary"], "start": "BinaryList", "considered": ["One", "Zero", "BinaryList"]},
    {"modules": ["examples.pcfg_example"], "start": "R", "considered": ["A", "B", "C"]},
    {"modules": ["examples.recurrence"], "start": "Node", "considered": ["Op", "Access", "Literal", "KnowledgeLiteral"]},
    {"modules": ["examples.tutorial_example"], "start": "Scalar", "considered": ["Value", "ScalarVar", "VectorialVar", "Mean", "CumulativeSum"]},
    {"modules": ["tests.representations.tree_based.specific_type_mutation_test"], "start": "Root", "considered": ["Concrete", "Middle", "MiddleList", "ConcreteTerm", "RootToConcrete"]},
    {"modules": ["tests.representations.representations_test"], "start": "Root", "considered": ["IntRangeM", "ListRangeM", "FloatRangeM", "Branch", "Concrete", "ListWrapper"]},
    {"modules": ["tests.representations.stack.stack_test"], "start": "Root", "considered": ["Concrete", "Middle", "MiddleList"]},
    {"modules": ["tests.gp.probabilistic_test"], "start": "Option", "considered": ["OptionA", "OptionB"]},
    {"modules": ["tests.core.grammar_test"], "start": "Root", "considered": ["Leaf", "Rec", "RecAlt"]},
    {"modules": ["tests.representations.dependent_types_context_test"], "start": "Expr", "considered": ["Let", "Var", "Literal"]},
]


def shipped_phase(chk, replay_case=None):
    """the shipped grammars: extracted from their real classes, compared with the model on the declaration reflected from those classes"""
    specs = [dict(s, op="shipped") for s in SHIPPED] if replay_case is None else [dict(replay_case["shipped"], op="shipped")]
    res = core.run_impl("grammar", {"cases": specs}, timeout=900)
    if isinstance(res, dict) and res.get("driver_failed"):
        chk.violation("correspondence", "the shipped grammars could not be extracted: " + res["stderr"][-600:], {"component": "shipped grammars", "stderr": res["stderr"]}, False)
        return {"attempted": len(specs), "compared": 0, "skipped": {}}
    cases, outs, skipped = [], [], {}
    for sp, o in zip(specs, res):
        oo = o.get("ok", o)
        if "decl" not in oo:
            skipped["+".join(sp["modules"])[-60:] + ":" + sp["start"]] = oo.get("unsupported") or f"{oo.get('exc')}: {str(oo.get('msg'))[:80]}"
            continue
        cases.append({"op": "extract", "decl": oo["decl"], "times": 1, "usable": "usable" in oo, "shipped": {k: sp[k] for k in ("modules", "start", "considered") if k in sp}, "names": oo["names"]})
        outs.append({"ok": {k: oo[k] for k in ("extractions", "usable") if k in oo}})
    o2, corr, orac = flow.differential(chk, "grammar", cases, to_coq, gc.IMPORTS, run_fn="run_c05", describe=lambda c, o: f"shipped grammar {c['shipped']} (classes {c['names']}): " + describe(c, o),
                                        component="grammar analysis of the shipped grammars", kind=lambda c: c["shipped"]["modules"][-1], chunk=10, coq_regions=("F10", "F35"), precomputed=outs)
    return {"attempted": len(specs), "compared": len(cases), "skipped": skipped, "correspondence_mismatches": len(corr), "oracle_failures": len(orac),
            "classes": sum(len(c["decl"]["classes"]) for c in cases)}


def run(tier, seed, replay=None):
    chk = core.Check("C05", tier, seed)
    proof = core.proof_step("C05", thorough=(tier == "thorough"))
    ship_replay = bool(replay and replay["replay"].get("case", {}).get("shipped"))
    shipped_cov = shipped_phase(chk, replay["replay"]["case"] if ship_replay else None) if (ship_replay or not replay) else None
    cases = [] if ship_replay else [replay["replay"]["case"]] if replay else gen(seed, tier)
    outs_all, corr_all, orac_all = None, [], []
    seeds = ["0"] if replay else (["0", "1", "4242"] if tier == "quick" else ["0", "1", "7", "99", "4242", "31337"])
    for hs in (seeds if cases else []):
        outs, corr, orac = flow.differential(chk, "grammar", cases, to_coq, gc.IMPORTS, run_fn="run_c05", describe=describe,
                                              component=f"grammar analysis (PYTHONHASHSEED={hs})", kind=lambda c: str(c["decl"]["xdepth"]), chunk=60,
                                              hashseed=hs, coq_regions=("F10", "F35"))
        if outs_all is None:
            outs_all = outs
        elif outs is not None and outs != outs_all:
            k = next(i for i, (a, b) in enumerate(zip(outs, outs_all)) if a != b)
            chk.violation("oracle", f"[grammar analysis] the extracted grammar depends on PYTHONHASHSEED ({hs} vs {seeds[0]}): " + describe(cases[k], outs[k]),
                          {"component": "grammar analysis", "driver": "grammar", "case": cases[k], "observed": outs[k], "observed_other_env": outs_all[k], "hashseeds": [seeds[0], hs]}, True)
        corr_all += corr
        orac_all += orac
    outs = outs_all
    if replay and outs:
        print("replayed:", describe(cases[0], outs[0]))
        print("correspondence", "FAILS" if corr_all else "ok", "| contract", "FAILS" if orac_all else "holds")
    if outs:
        chk.samples = [{"source": grammars.source(c["decl"])[len(grammars.HEADER):], "considered": c["decl"]["considered"],
                        "observed": {k: o["ok"]["extractions"][0].get("ok", {}).get(k) for k in ("alts", "dist", "rec")} if "ok" in o else o}
                       for c, o in list(zip(cases, outs))[3:: max(1, len(cases) // 4)]][:4]
    forms = {}
    for c in cases:
        for cl in c["decl"]["classes"]:
            for t in cl["fields"]:
                forms[t[0]] = forms.get(t[0], 0) + 1
    cov = {
        "shipped_grammars": shipped_cov,
        "evaluations": len(cases) * len(seeds) + ((shipped_cov or {}).get("compared") or 0),
        "distinct_nontrivial": flow.distinct_nontrivial(cases, outs or [], nontrivial) if outs else 0,
        "traces_validated_against_impl": len(cases) * len(seeds),
        "correspondence_mismatches": len(corr_all), "oracle_failures": len(orac_all),
        "environments": {"PYTHONHASHSEED": seeds},
        "input_distribution": {"expansion_depthing": sum(1 for c in cases if c["decl"]["xdepth"]), "with_usable_grammar": sum(1 for c in cases if c.get("usable")),
                               "interleaved_with_another_extraction": sum(1 for c in cases if c.get("interleave") is not None),
                               "field_type_forms": forms, "classes_per_hierarchy": {str(k): sum(1 for c in cases if len(c["decl"]["classes"]) == k) for k in range(1, 11)}},
        "known_region_hits": getattr(chk, "region_hits", {}),
        "exhaustive": False,
    }
    rule = ("case = class hierarchy (1-3 abstract layers, 1-6 productions, 0-3 fields of base/class/list/sized list/tuple/union/refined type, unreachable and standalone classes, both depth modes) "
            "materialised as a real module and extracted; observed: alternatives, all_nodes, terminals, non_terminals, distanceToTerminal, recursive_prods, get_weights(), usable_grammar(); "
            "every case under each PYTHONHASHSEED; non-trivial = >= 4 registered symbols and a rule with >= 2 productions; distinct by canonical JSON")
    return chk.finish(proof, TRUSTED, cov, rule)
