"""C06 — crossover recombines parental material; point mutation is local."""
from __future__ import annotations

import json

from harness import core, flow
from harness.props import rep_common as rc

PROP = "C06"
RUN_FN = "run_c06"
REGIONS = ("F13",)
TRUSTED = [
    "Coq 8.16.1 kernel; vm_compute for generated cases; no native_compute",
    "model: coq/Model/Linear.v (codons_*, keyed_*, sge_mutate, dsge_mutate, tree_cross_child), hand-written from the five representation modules; the stack representation's mutate / crossover are in Linear.v, its mapping in coq/Model/Stack.v (compared in C01 and C07, not here)",
    "correspondence harness: harness/props/c06.py, harness/props/rep_common.py, harness/drivers/reps.py: one shared recording random source; every operation is re-run in the model on the observed inputs and the answers it consumed",
]
RULE = ("case = hierarchy x representation (tree, GE, SGE, dSGE, stack; gene lengths 1..400) x a sequence of create / map / mutate / crossover operations over a growing registry of genotypes; every operation becomes one "
        "evaluation: inputs, answers drawn from the shared source, output; contract: children hold parental genes at the same locus (per key for SGE/dSGE), mutation changes <= 1 gene and keeps the shape, a tree child is the receiving parent with one subtree replaced by a same-class subtree of the donor")


def run(tier, seed, replay=None):
    return run_rep(PROP, RUN_FN, REGIONS, TRUSTED, RULE, tier, seed, replay)


def rep_phase(chk, prop, run_fn, regions, cases, component="representation operators"):
    """drives operation sequences on the representations, evaluates model and contract inside Coq, reports violations.
    Returns None when the driver failed, else a dict with the expanded cases, failures and region hits."""
    res = core.run_impl("reps", {"cases": cases}, timeout=1500)
    if isinstance(res, dict) and res.get("driver_failed"):
        chk.violation("correspondence", "the representations could not be driven (they no longer check): " + res["stderr"][-600:], {"component": "representations", "stderr": res["stderr"]}, False)
        return None
    ecs, eos = rc.expand(cases, res)
    run_ = [i for i, o in enumerate(eos) if '"exc": "NotRun"' not in json.dumps(o, default=str)]
    if len(run_) != len(eos):      # operations the driver did not run (it gives up on a batch after five calls that did not return)
        chk.not_run = getattr(chk, "not_run", 0) + len(eos) - len(run_)
        ecs, eos = [ecs[i] for i in run_], [eos[i] for i in run_]
    terms = [rc.to_coq(c, o) for c, o in zip(ecs, eos)]
    known = {k["id"]: k for k in core.known_findings(prop)}
    lists = core.run_cases(prop, rc.IMPORTS, terms, run_fn=run_fn, chunk=80, nlists=2 + len(regions))
    corr, orac = list(lists[0]), list(lists[1])
    hits = {}
    for rid, h in zip(regions, lists[2:]):
        if h:
            if rid in known:
                line = f"{rid}: {known[rid]['what_fails']}"
                if line not in chk.known_hit:
                    chk.known_hit.append(line)
                hits[rid] = len(h)
            else:
                orac = sorted(set(orac) | set(h))
    full = {}
    for c in cases:
        full[(c.get("seed"), str(c["rep"]))] = c
    seen_kinds = {}
    for i in orac:
        c, o = ecs[i], eos[i]
        kk = (c["rep"]["kind"], c["op"])
        seen_kinds[kk] = seen_kinds.get(kk, 0) + 1
        if seen_kinds[kk] > 1 or len(chk.violations) >= 8:
            continue
        chk.violation("oracle", f"[{c['rep']['kind']} representation] " + rc.describe(c, o),
                      {"component": component, "driver": "reps", "case": c, "case_full": full.get((c.get("seed"), str(c["rep"]))), "observed": o, "coq_term": terms[i][:4000]}, True)
    corr_only = [i for i in corr if i not in set(orac)]
    if corr_only and not chk.violations:
        i = min(corr_only, key=lambda j: len(terms[j]))
        c, o = ecs[i], eos[i]
        chk.violation("correspondence", f"model and implementation disagree on {len(corr_only)} of {len(ecs)} representation operations; the property is no longer shown to hold there. Smallest: " + rc.describe(c, o),
                      {"component": component, "correspondence_no_longer_checks": f"{c['rep']['kind']}.{c['op']}", "driver": "reps", "case": c,
                       "case_full": full.get((c.get("seed"), str(c["rep"]))), "observed": o, "coq_term": terms[i][:4000], "mismatches": len(corr_only)}, False)
    dist = {}
    for c in ecs:
        key = f"{c['rep']['kind']}.{c['op']}"
        dist[key] = dist.get(key, 0) + 1
    errs = {}
    for o in eos:
        e = (o.get("rec", {}).get("res") or {}).get("exc")
        if e:
            errs[e] = errs.get(e, 0) + 1
    return {"res": res, "ecs": ecs, "eos": eos, "terms": terms, "corr": corr, "orac": orac, "hits": hits, "operations": dist, "errors": errs}


def variation_phase(chk, prop, run_fn, regions, replay, seed, tier, component):
    """the programs returned by every representation after create / map / mutate / crossover, judged by [run_fn].
    Returns (phase result or None, rep_replay): with rep_replay the caller skips its other components."""
    rep_replay = bool(replay and "case_full" in replay["replay"])
    rcases = [replay["replay"]["case_full"]] if rep_replay else [] if replay else rc.gen_variation_cases(flow.rng(seed, prop.lower() + "r"), tier)
    ph = rep_phase(chk, prop, run_fn, regions, rcases, component=component) if rcases else None
    if rep_replay and ph:
        print("replayed", len(ph["ecs"]), "operations: correspondence", "FAILS" if ph["corr"] else "ok", "| contract", "FAILS" if ph["orac"] else "holds")
    return ph, rep_replay


def variation_cov(ph):
    return ({"operations": ph["operations"], "errors": ph["errors"], "known_region_hits": ph["hits"],
             "correspondence_mismatches": len(ph["corr"]), "oracle_failures": len(ph["orac"])} if ph else None)


def stack_phase(chk, prop, ecs, eos, cases=()):
    """the stack machine's mapping against its model (coq/Model/Stack.v: stack_map): every observed mapping of a stack genotype is
    re-run in the model on the same codons.  Returns (mappings compared, of which the model gave a definite answer)."""
    sm = [(c, o) for c, o in zip(ecs, eos) if c["rep"]["kind"] == "stack" and c["op"] == "map" and '"exc": "NotRun"' not in json.dumps(o, default=str)]
    if not sm:
        return 0, 0
    sterms = [rc.to_coq(c, o) for c, o in sm]
    bad, indefinite = core.run_cases(prop, rc.IMPORTS, sterms, run_fn="run_stack", chunk=80)
    if bad:
        full = {(k.get("seed"), str(k["rep"])): k for k in cases}
        # the machine's model answers within a few thousand steps and the implementation overflowed the interpreter's stack or did not
        # return: a failing input of the implementation, not only a disagreement
        rec = [j for j in bad if ((sm[j][1].get("rec", {}).get("res") or {}).get("exc")) in ("RecursionError", "Timeout")]
        if rec:
            c, o = sm[min(rec, key=lambda j: len(sterms[j]))]
            chk.violation("oracle", f"[stack mapping] the mapping raises {o['rec']['res']['exc']} (not the library's own error) on {len(rec)} of {len(sm)} mappings for which the stack machine returns within "
                          "6000 steps: " + rc.describe(c, o),
                          {"component": "stack mapping", "driver": "reps", "case": c, "case_full": full.get((c.get("seed"), str(c["rep"]))), "observed": o, "failing": len(rec)}, True)
        rest = [j for j in bad if j not in set(rec)]
        if rest:
            c, o = sm[min(rest, key=lambda j: len(sterms[j]))]
            chk.violation("correspondence", f"the stack machine's model and the implementation's mapping disagree on {len(rest)} of {len(sm)} mappings; the property is no longer shown to hold there. Smallest: " + rc.describe(c, o),
                          {"component": "stack mapping", "correspondence_no_longer_checks": "stack.map (coq/Model/Stack.v: stack_map)", "driver": "reps", "case": c,
                           "case_full": full.get((c.get("seed"), str(c["rep"]))), "observed": o, "mismatches": len(rest)}, False)
    return len(sm), len(sm) - len(indefinite)


def run_rep(prop, run_fn, regions, trusted, rule, tier, seed, replay, extra=None, more_cases=None):
    chk = core.Check(prop, tier, seed)
    proof = core.proof_step(prop, thorough=(tier == "thorough"))
    r = flow.rng(seed, prop.lower())
    cases = [replay["replay"]["case_full"]] if replay and "case_full" in replay["replay"] else rc.gen_cases(r, tier) + (more_cases(flow.rng(seed, prop.lower() + "x"), tier) if more_cases else [])
    ph = rep_phase(chk, prop, run_fn, regions, cases)
    if ph is None:
        return chk.finish(proof, trusted, {"evaluations": 0, "distinct_nontrivial": 0}, rule)
    ecs, eos, terms, corr, orac = ph["ecs"], ph["eos"], ph["terms"], ph["corr"], ph["orac"]
    extra_cov = extra(chk, cases, ph["res"]) if extra else {}
    if replay:
        print("replayed", len(ecs), "operations: correspondence", "FAILS" if corr else "ok", "| contract", "FAILS" if orac else "holds")
    chk.samples = [{"rep": c["rep"], "op": c["op"], "observed": {k: (str(v)[:300]) for k, v in o.get("rec", {}).items() if k in ("inputs", "res", "changed")}} for c, o in list(zip(ecs, eos))[:: max(1, len(ecs) // 4)]][:4]
    cov = {
        "evaluations": len(ecs), "operation_sequences": len(cases),
        "distinct_nontrivial": len({t for t, c in zip(terms, ecs) if c["op"] in ("mutate", "cross", "map")}),
        "traces_validated_against_impl": len(ecs),
        "correspondence_mismatches": len(corr), "oracle_failures": len(orac), "known_region_hits": ph["hits"],
        "input_distribution": {"operations": ph["operations"], "error_kinds_observed": ph["errors"]},
        "exhaustive": False,
    }
    cov.update(extra_cov)
    return chk.finish(proof, trusted, cov, rule)
