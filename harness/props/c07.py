"""C07 — genotype-to-phenotype mapping is a pure function of the genotype."""
from __future__ import annotations

import json

from harness import core, grammars
from harness.props import c06
from harness.props import rep_common as rc

PROP = "C07"
TRUSTED = [
    "Coq 8.16.1 kernel; vm_compute for generated cases; no native_compute",
    "model: coq/Model/Linear.v (ge_map, sge_map, dsge_map: functions of the genotype; the shared search stream is not an argument of the first two) over coq/Model/Synth.v",
    "PARTIAL for dynamic SGE: proved that reads inside the existing genes draw nothing; that a second mapping of the extended genotype replays the first is checked on the implementation (pairs of mappings), not proved; the stack representation's mapping is modelled for hierarchies without metahandler-annotated and string fields (coq/Model/Stack.v: a Gallina function of the codons, compared with every observed mapping); on the others pairs of mappings and the shared stream are observed",
    "correspondence harness: harness/props/c07.py, harness/props/rep_common.py, harness/drivers/reps.py: every genotype is mapped repeatedly with unrelated draws from the shared source in between; the shared source records every answer it gives",
]
RULE = ("case = hierarchy x representation x operation sequence in which genotypes (created, mutated, crossed over) are mapped repeatedly, interleaved with unrelated draws from the shared source; evaluations = operations + pairs of mappings of one genotype; "
        "contract: a mapping draws nothing from the shared source (dSGE: only while extending the genotype the first time) and two mappings of one genotype give structurally identical programs")


def has_ann(d):
    return '"ann"' in json.dumps(d)


def extra(chk, cases, res):
    pairs = rc.map_pairs(cases, res)
    known = {k["id"]: k for k in core.known_findings(PROP)}
    good = [(c, a, b) for c, a, b in pairs]
    terms = [rc.c_mappair(a, b) for c, a, b in good]
    n15 = 0
    if terms:
        _, bad = core.run_cases(PROP, rc.IMPORTS, terms, run_fn="run_mappairs", chunk=200)
        reported = 0
        for i in bad:
            c, a, b = good[i]
            if c["rep"]["kind"] == "dsge" and has_ann(c["decl"]) and "F15" in known:
                n15 += 1
                continue
            if reported < 3:
                chk.violation("oracle", f"[{c['rep']['kind']} mapping] the same genotype mapped twice gives different results or draws from the shared source: first {json.dumps(a['res'])[:300]} ; again {json.dumps(b['res'])[:300]} ; "
                              f"the second mapping drew {len(b['consumed'])} answers from the shared source; genotype {json.dumps(a['inputs'])[:300]}; classes:\n" + grammars.source(c["decl"])[len(grammars.HEADER):],
                              {"component": "mapping twice", "driver": "reps", "case_full": c, "first": a, "second": b}, True)
                reported += 1
        if n15:
            chk.known_hit.append(f"F15: {known['F15']['what_fails']}")
    ecs, eos = rc.expand(cases, res)
    n_sm, n_def = c06.stack_phase(chk, PROP, ecs, eos, cases)
    return {"pairs_of_mappings_of_one_genotype": len(pairs), "known_region_hits_pairs": {"F15": n15},
            "stack_mappings_compared_with_the_model": n_sm, "of_which_with_a_definite_model_answer": n_def}


def run(tier, seed, replay=None):
    return c06.run_rep(PROP, "run_c07", (), TRUSTED, RULE, tier, seed, replay, extra=extra, more_cases=rc.gen_stack_cases)
