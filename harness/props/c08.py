"""C08 — same seed, same search: results are reproducible within and across processes."""
from __future__ import annotations

import json

from harness import core, flow, grammars, setscan
from harness.props import rep_common as rc

TRUSTED = [
    "Coq 8.16.1 kernel; no native_compute",
    "theorems: the grammar analysis (productions, recursive set, finite distances) is independent of the iteration order of the symbol set (Proofs/DistProofs.v); GE/SGE mapping is a function of the genes (C07); every model entry point is a Gallina function of (declaration, configuration, tape)",
    "PARTIAL: address-dependent iteration order and process state are runtime behaviour the model abstracts as a permutation parameter; that no OTHER site depends on it is established by a structural scan of /repo (harness/setscan.py, regenerated on every run, compared with the committed inventory harness/set_sites.json) and by running identical searches in processes that differ in PYTHONHASHSEED, allocation before class definition and import order",
    "CPython's random.Random(seed) is deterministic (trusted)",
]

ENVS = [{"hashseed": "0", "pad": 0, "pad_classes": 0, "import_order": 0},
        {"hashseed": "1", "pad": 5000, "pad_classes": 0, "import_order": 1},
        {"hashseed": "4242", "pad": 77, "pad_classes": 61, "import_order": 2},
        {"hashseed": "31337", "pad": 123457, "pad_classes": 7, "import_order": 0}]


def gen(seed, tier):
    r = flow.rng(seed, "c08")
    big = tier == "thorough"
    fam = rc.decl_family()
    weighted = json.loads(json.dumps(fam[1]))
    weighted["classes"][1]["weight"] = [3, 1]
    weighted["classes"][2]["weight"] = [1, 2]
    decls = [fam[0], weighted, fam[3]] + ([fam[1], fam[4]] if big else [])
    cases = []
    for d in decls:
        for rep in rc.rep_specs(r, max_depth=3):
            if rep["kind"] == "stack":
                rep = dict(rep, gene_length=300)
            for algo in (("gp", "rs", "hc", "opo") if big else (("gp", "hc") if rep["kind"] in ("tree", "stack") else ("gp", "rs", "opo")[len(cases) % 3:][:1] + ("hc",)[: len(cases) % 2])):
                cases.append({"op": "repro", "decl": d, "rep": rep, "algo": algo, "seed": r.randrange(1000), "budget": 30 if algo == "gp" else 12, "pop": 6, "repeat": 2})
    # generations made mostly by crossover (the default step crosses over with probability 0.01): every representation
    for d in decls[:2]:
        for rep in rc.rep_specs(r, max_depth=3):
            if rep["kind"] == "stack":
                rep = dict(rep, gene_length=300)
            cases.append({"op": "repro", "decl": d, "rep": rep, "algo": "gp", "seed": r.randrange(1000), "budget": 40, "pop": 8, "repeat": 2, "step": "xover"})
    # GeneticProgramming constructed without random= (its own default source), twice in one process
    for rep in ({"kind": "dsge", "max_depth": 3}, {"kind": "stack", "gene_length": 300}):
        cases.append({"op": "repro", "decl": fam[0], "rep": rep, "algo": "gp", "seed": 0, "budget": 24, "pop": 6, "repeat": 3, "default_random": True})
    return cases


def describe(c, outs_by_env):
    return ("classes:\n" + grammars.source(c["decl"])[len(grammars.HEADER):] + f"algorithm={c['algo']} representation={c['rep']} seed={c['seed']} budget={c['budget']} population={c.get('pop')} "
            + " ; ".join(f"[env {e}] " + json.dumps(o)[:400] for e, o in outs_by_env))


def run(tier, seed, replay=None):
    chk = core.Check("C08", tier, seed)
    proof = core.proof_step("C08", thorough=(tier == "thorough"))
    # (a) structural scan: every iteration over an address-ordered set must be in the committed inventory
    inv = json.load(open(core.VERIF + "/harness/set_sites.json"))
    key = lambda s: (s["file"], s["function"], s["kind"], s["name"])  # noqa: E731
    known_sites = {key(s) for s in inv}
    found = setscan.scan(core.REPO)
    new_sites = [s for s in found if key(s) not in known_sites]
    if new_sites:
        chk.violation("correspondence", "the library iterates over an address-ordered set at a site the order-independence theorems / observations do not cover: " + json.dumps(new_sites)[:600],
                      {"component": "set-iteration inventory", "correspondence_no_longer_checks": "harness/set_sites.json", "new_sites": new_sites}, False)
    # (b) identical searches in different process environments
    cases = [replay["replay"]["case"]] if replay else gen(seed, tier)
    envs = ENVS if tier == "thorough" else ENVS[:3]
    results = []
    for e in envs:
        payload = {"cases": [dict(c, pad=e["pad"], pad_classes=e["pad_classes"], import_order=e["import_order"]) for c in cases]}
        res = core.run_impl("repro", payload, hashseed=e["hashseed"], timeout=1500)
        if isinstance(res, dict) and res.get("driver_failed"):
            chk.violation("correspondence", "searches could not be driven: " + res["stderr"][-500:], {"component": "searches", "stderr": res["stderr"]}, False)
            results = []
            break
        results.append(res)
    n_eval, n_diff_in, n_diff_across, errs = 0, 0, 0, {}
    if results:
        for i, c in enumerate(cases):
            per_env = [(envs[j]["hashseed"], results[j][i].get("ok", results[j][i])) for j in range(len(envs))]
            n_eval += len(envs) * c.get("repeat", 2)
            bad = None
            for ename, o in per_env:
                runs = o.get("runs", [])
                for r_ in runs:
                    if "exc" in r_:
                        errs[r_["exc"]] = errs.get(r_["exc"], 0) + 1
                if len({json.dumps(x, sort_keys=True) for x in runs}) > 1:
                    bad = f"two identically configured searches in ONE process (env PYTHONHASHSEED={ename}) differ"
                    n_diff_in += 1
                    break
            if bad is None and len({json.dumps(o.get("runs"), sort_keys=True) for _, o in per_env}) > 1:
                bad = "the same search gives different results in different processes"
                n_diff_across += 1
            if bad and len(chk.violations) < 4:
                chk.violation("oracle", f"[reproducibility] {bad}: " + describe(c, per_env),
                              {"component": "reproducibility", "driver": "repro", "case": c, "observed": per_env, "environments": envs}, True)
    if replay:
        print("replayed; violations:", len(chk.violations))
    chk.samples = [{"case": {k: v for k, v in c.items() if k != "decl"}, "observed": results[0][i].get("ok")} for i, c in list(enumerate(cases))[:: max(1, len(cases) // 4)]][:4] if results else []
    cov = {
        "evaluations": n_eval, "searches_configured": len(cases), "environments": envs,
        "distinct_nontrivial": len(cases) * len(envs),
        "traces_validated_against_impl": n_eval,
        "set_iteration_sites_in_repo": len(found), "set_iteration_sites_in_inventory": len(inv), "new_sites": len(new_sites),
        "differences_within_process": n_diff_in, "differences_across_processes": n_diff_across,
        "input_distribution": {"algorithms": {a: sum(1 for c in cases if c["algo"] == a) for a in ("gp", "rs", "hc", "opo")},
                               "representations": {k: sum(1 for c in cases if c["rep"]["kind"] == k) for k in ("tree", "ge", "sge", "dsge", "stack")},
                               "weighted_grammars": sum(1 for c in cases if any(cl.get("weight") for cl in c["decl"]["classes"])),
                               "errors_observed": errs},
        "exhaustive": False,
    }
    rule = ("case = grammar (incl. weighted, concrete start) x representation x algorithm x seed, each search run twice per process and in 3 (thorough: 4) processes differing in PYTHONHASHSEED, "
            "allocation before class definition and import order; observed: digest of the exact sequence of programs handed to the fitness function, the best program and its fitness; plus the regenerated set-iteration inventory")
    return chk.finish(proof, TRUSTED, cov, rule)
