"""C09 — operators and steps never modify their inputs."""
from __future__ import annotations

from harness.props import c06

PROP = "C09"
TRUSTED = [
    "Coq 8.16.1 kernel; vm_compute for generated cases; no native_compute",
    "model: coq/Model/Linear.v and coq/Model/Synth.v are purely functional: every operator takes its inputs as values and returns new values; the theorems say which parts of the operator state may change (Props/C09.v); aliasing between Python objects is outside the functional model and is observed, not proved",
    "observation: before and after EVERY operation the harness takes a deep structural snapshot of every genotype created so far (program or genes, node metadata gengy_*, synthesis contexts) and reports those that changed; the only change accepted is dSGE's on-demand extension of a genotype by its own mapping",
    "correspondence harness: harness/props/c09.py, harness/props/rep_common.py, harness/drivers/reps.py, harness/drivers/steps.py",
]
RULE = ("case = hierarchy x representation (tree, GE, SGE, dSGE, stack) x a sequence of create / map / mutate / crossover operations over a growing registry; after each operation every earlier genotype is compared with its snapshot "
        "(program, genes, gengy_* metadata, synthesis contexts); results are consumed (mapped, mutated again, crossed) by later operations of the sequence")


def gen_step_cases(seed, tier):
    """every built-in step and combinator on populations whose fitness values include ties, NaN and infinities"""
    from harness import flow
    r = flow.rng(seed, "c09s")
    big = tier == "thorough"
    leaves = [["elitism"], ["novelty"], ["tournament", 2, False], ["tournament", 3, True], ["mutation", 1], ["crossover", 1], ["identity"]]
    vals = [[0, 1], [1, 1], [1, 2], [3, 1], [5, 2], "nan", "inf", "-inf"]
    cases = []
    for mo in (False, True):
        steps = list(leaves) + ([["lexicase", False], ["lexicase", True]] if mo else [])
        steps += [["seq", [["tournament", 2, False], ["crossover", 1], ["mutation", 1]]],
                  ["par", [["elitism"], ["novelty"], ["tournament", 2, False]], [[1, 1], [1, 1], [2, 1]]],
                  ["excl", [["mutation", 1], ["crossover", 1]], [[1, 1], [1, 1]]]]
        if mo:
            steps += [["seq", [["lexicase", False], ["mutation", 1]]], ["par", [["lexicase", True], ["elitism"]], [[1, 1], [1, 1]]]]
        for st in steps:
            for _ in range(3 if not big else 10):
                n = r.choice([3, 5, 8])
                ncomp = r.choice([2, 3]) if mo else 1
                table = [[r.choice(vals) if r.random() < 0.25 else r.choice(vals[:5]) for _ in range(ncomp)] for _ in range(n)]
                cases.append({"op": "inputs", "step": st, "n": n, "k": r.choice([n, max(1, n - 1), max(1, n // 2)]), "form": r.choice(["list", "population", "oneshot"]),
                              "mo": mo, "mins": [r.random() < 0.5 for _ in range(ncomp)], "table": table, "seed": r.randrange(1000)})
    return cases


def step_phase(chk, tier, seed, replay_case=None):
    from harness import core
    cases = [replay_case] if replay_case else gen_step_cases(seed, tier)
    res = core.run_impl("steps", {"cases": cases}, timeout=900)
    if isinstance(res, dict) and res.get("driver_failed"):
        chk.violation("correspondence", "the steps could not be driven: " + res["stderr"][-600:], {"component": "steps: inputs untouched", "stderr": res["stderr"]}, False)
        return {"step_applications": 0}
    bad = 0
    kinds = {}
    for c, o in zip(cases, res):
        oo = o.get("ok", o) if isinstance(o, dict) else {}
        kinds[c["step"][0]] = kinds.get(c["step"][0], 0) + 1
        if oo.get("n_changed"):
            bad += 1
            if bad <= 2:
                chk.violation("oracle", f"[steps] step {c['step']} modified {oo['n_changed']} of the {c['n']} individuals it was given (genotype, phenotype, cached fitness [aggregate, components, identity of the component list]): "
                              f"before/after of the first: {str(oo['changed'][0])[:500]}; population form {c['form']}, objectives minimise={c['mins']}, fitness table {c['table']}",
                              {"component": "steps: inputs untouched", "driver": "steps", "case": c, "observed": oo}, True)
    return {"step_applications": len(cases), "steps": kinds, "applications_with_nan_or_inf_fitness": sum(1 for c in cases if any(isinstance(x, str) for row in c["table"] for x in row)),
            "inputs_modified": bad}


def run(tier, seed, replay=None):
    if replay and replay["replay"].get("case", {}).get("op") == "inputs":
        from harness import core
        chk = core.Check(PROP, tier, seed)
        proof = core.proof_step(PROP, thorough=False)
        cov = step_phase(chk, tier, seed, replay["replay"]["case"])
        print("replayed one step application:", "inputs MODIFIED" if cov.get("inputs_modified") else "inputs untouched")
        return chk.finish(proof, TRUSTED, dict(cov, evaluations=1, distinct_nontrivial=1), RULE)
    return c06.run_rep(PROP, "run_c09", (), TRUSTED, RULE + "; and every built-in step / combinator applied to populations whose cached fitness includes ties, NaN and infinite components: the individuals handed in are compared with their snapshot afterwards",
                       tier, seed, replay, extra=lambda chk, cases, res: step_phase(chk, tier, seed))
