"""C09 — operators and steps never modify their inputs."""
from __future__ import annotations

from harness.props import c06

PROP = "C09"
TRUSTED = [
    "Coq 8.16.1 kernel; vm_compute for generated cases; no native_compute",
    "model: coq/Model/Linear.v and coq/Model/Synth.v are purely functional: every operator takes its inputs as values and returns new values; the theorems say which parts of the operator state may change (Props/C09.v); aliasing between Python objects is outside the functional model and is observed, not proved",
    "observation: before and after EVERY operation the harness takes a deep structural snapshot of every genotype created so far (program or genes, node metadata gengy_*, synthesis contexts) and reports those that changed; the only change accepted is dSGE's on-demand extension of a genotype by its own mapping",
    "correspondence harness: harness/props/c09.py, harness/props/rep_common.py, harness/drivers/reps.py, harness/drivers/steps.py",
]
RULE = ("case = hierarchy x representation (tree, GE, SGE, dSGE, stack) x a sequence of create / map / mutate / crossover operations over a growing registry; after each operation every earlier genotype is compared with its snapshot "
        "(program, genes, gengy_* metadata, synthesis contexts); results are consumed (mapped, mutated again, crossed) by later operations of the sequence")


def run(tier, seed, replay=None):
    return c06.run_rep(PROP, "run_c09", (), TRUSTED, RULE, tier, seed, replay)
