"""C10 — the grammar is read-only during synthesis and search."""
from __future__ import annotations

from harness import core, flow, grammars
from harness.props import synth_common as sy

TRUSTED = [
    "Coq 8.16.1 kernel; vm_compute for generated cases; no native_compute",
    "model: coq/Model/Synth.v (create_node with its backtracking loop; the state threads Grammar.alternatives), coq/Model/Grammar.v; hand-written from representations/tree/initializations.py and grammar/metahandlers/*.py",
    "distances, recursive set and weights are not part of the threaded state because no modelled operation writes them (observed before/after on the implementation by the check)",
    "correspondence harness: harness/props/c10.py, harness/drivers/synth.py (real classes, real deciders, scripted / recorded / gene-backed random sources)",
]


def gen(seed, tier):
    r = flow.rng(seed, "c10")
    big = tier == "thorough"
    cases = []
    # a grammar whose dependent refinement makes a production infeasible in some contexts (empty sibling list -> VarRange([]))
    S = lambda i: ["sym", i]  # noqa: E731
    backtrack = {"classes": [
        {"parent": None, "abs": "abc", "fields": [], "weight": None},
        {"parent": 0, "abs": None, "fields": [["ann", ["list", ["ann", ["base", "int"], ["intrange", 0, 3]]], ["listsize", 0, 1, True]],
                                                 ["ann", ["base", "int"], ["dependent", [0], ["varrange_of"]]]], "weight": None},
        {"parent": 0, "abs": None, "fields": [["base", "int"]], "weight": None},
        {"parent": 0, "abs": None, "fields": [S(0), S(0)], "weight": None}], "considered": [0, 1, 2, 3], "start": 0, "xdepth": False}
    for src in sy.gen_sources(r, n_record=6, ge=3):
        for dec in (["max", 3], ["pi", 4], ["full", 2], ["prog"]):
            cases.append({"op": "create", "decl": backtrack, "decider": dec, "src": src})
    # the same infeasible production as the ONLY production of a nested abstract type: the retry loop of that rule runs out of
    # candidates and the enclosing rule recovers with another production
    dep_fields = [["ann", ["list", ["ann", ["base", "int"], ["intrange", 0, 3]]], ["listsize", 0, 1, True]],
                  ["ann", ["base", "int"], ["dependent", [0], ["varrange_of"]]]]
    backtrack2 = {"classes": [
        {"parent": None, "abs": "abc", "fields": [], "weight": None},
        {"parent": 0, "abs": None, "fields": [S(2)], "weight": None},
        {"parent": None, "abs": "abc", "fields": [], "weight": None},
        {"parent": 2, "abs": None, "fields": dep_fields, "weight": None},
        {"parent": 0, "abs": None, "fields": [["base", "int"]], "weight": None},
        {"parent": 0, "abs": None, "fields": [S(0), S(0)], "weight": None}], "considered": [0, 1, 2, 3, 4, 5], "start": 0, "xdepth": False}
    for src in sy.gen_sources(r, n_record=6, ge=3):
        for dec in (["max", 4], ["pi", 4], ["full", 3], ["prog"]):
            cases.append({"op": "create", "decl": backtrack2, "decider": dec, "src": src})
    for _ in range(240 if big else 70):
        d = grammars.gen_decl(r, {"weights": r.random() < 0.2, "tuples": True})
        for src in sy.gen_sources(r, n_record=1, extremes=(r.choice(["min", "max", "alt"]),), ge=1):
            dec = r.choice([["max", r.randrange(1, 6)], ["full", r.randrange(1, 6)], ["pi", r.randrange(1, 6)], ["prog"]])
            cases.append({"op": "create", "decl": d, "decider": dec, "src": src})
    return cases


def nontrivial(c, o):
    oo = o.get("ok", {})
    return oo.get("phase") == "create" and any(len(vs) >= 2 for _, vs in oo.get("alts_before", []))


def run(tier, seed, replay=None):
    chk = core.Check("C10", tier, seed)
    proof = core.proof_step("C10", thorough=(tier == "thorough"))
    rep_replay = bool(replay and "case_full" in replay["replay"])
    cases = [] if rep_replay else [replay["replay"]["case"]] if replay else gen(seed, tier)
    outs, corr, orac = (None, [], []) if rep_replay else flow.differential(
        chk, "synth", cases, sy.to_coq, sy.IMPORTS, run_fn="run_c10", describe=sy.describe,
        component="create_node / deciders", kind=lambda c: c["decider"][0], chunk=40)
    # every operation of every representation (create / map / mutate / crossover, incl. the stack representation's mapping,
    # on grammars that mention an abstract symbol without productions): productions and all analysis results as before
    from harness.props import c06, rep_common as rc
    rcases = [replay["replay"]["case_full"]] if rep_replay else [] if replay else rc.gen_variation_cases(flow.rng(seed, "c10r"), tier)
    ph = c06.rep_phase(chk, "C10", "run_c10r", (), rcases, component="grammar before / after representation operations") if rcases else None
    if rep_replay and ph:
        print("replayed", len(ph["ecs"]), "operations: correspondence", "FAILS" if ph["corr"] else "ok", "| contract", "FAILS" if ph["orac"] else "holds")
    if replay and outs:
        print("replayed:", sy.describe(cases[0], outs[0]))
        print("correspondence", "FAILS" if corr else "ok", "| contract", "FAILS" if orac else "holds")
    errs, phases = {}, {}
    for o in outs or []:
        oo = o.get("ok", {})
        phases[oo.get("phase", "driver")] = phases.get(oo.get("phase", "driver"), 0) + 1
        e = (oo.get("res") or {}).get("exc")
        if e:
            errs[e] = errs.get(e, 0) + 1
    if outs:
        chk.samples = [{"source": grammars.source(c["decl"])[len(grammars.HEADER):], "decider": c["decider"], "observed": {k: o.get("ok", {}).get(k) for k in ("phase", "res", "alts_before", "alts_after")}}
                       for c, o in list(zip(cases, outs))[:: max(1, len(cases) // 4)]][:4]
    cov = {
        "representation_operations": ({"operations": ph["operations"], "errors": ph["errors"], "correspondence_mismatches": len(ph["corr"]), "oracle_failures": len(ph["orac"])} if ph else None),
        "evaluations": len(cases) + (len(ph["ecs"]) if ph else 0),
        "distinct_nontrivial": flow.distinct_nontrivial(cases, outs or [], nontrivial) if outs else 0,
        "traces_validated_against_impl": len(cases),
        "correspondence_mismatches": len(corr), "oracle_failures": len(orac),
        "input_distribution": {"deciders": {k: sum(1 for c in cases if c["decider"][0] == k) for k in ("max", "full", "pi", "prog")},
                               "sources": {k: sum(1 for c in cases if c["src"]["k"] == k) for k in ("record", "extreme", "ge", "sge")},
                               "phases_observed": phases, "error_kinds_observed": errs,
                               "runs_that_backtracked_or_failed": sum(1 for o in outs or [] if (o.get("ok", {}).get("res") or {}).get("exc") == "SynthesisException")},
        "exhaustive": False,
    }
    rule = ("case = class hierarchy (incl. a family whose dependent refinement VarRange(sibling list) is infeasible when the sibling list is empty, forcing the backtracking loop) x decider x random source "
            "(recorded native stream, extreme scripted answers, gene-backed); observed: Grammar.alternatives before and after the call, result or exception, state of the source; non-trivial = creation was attempted on a grammar with a rule of >= 2 productions")
    return chk.finish(proof, TRUSTED, cov, rule)
