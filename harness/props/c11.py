"""C11 — per-node size and depth metadata matches the actual program structure."""
from __future__ import annotations

import json

from harness import core, flow, grammars
from harness.core import cz, cn, clist
from harness.props import synth_common as sy

IMPORTS = "From GE Require Import Base Grammar Labels LabelSpec C18Check GrammarCheck LabelCheck."

TRUSTED = [
    "Coq 8.16.1 kernel; vm_compute for generated cases; no native_compute",
    "model: coq/Model/Labels.v (relabel: both depth modes; count_class), hand-written from representations/tree/utils.py; specification coq/Spec/LabelSpec.v (independent traversal: lists and tuples transparent)",
    "the theorem is for the default depth mode; in expansion-depthing mode the labels are compared with the model only",
    "the memoisation on gengy_labeled is not part of the functional model: stale labels on reused objects are looked for by observing every node of programs produced by creation, mutation and crossover",
    "correspondence harness: harness/props/c11.py, harness/drivers/synth.py (labels_obs reads gengy_nodes, gengy_distance_to_term, gengy_weighted_nodes, gengy_types_this_way of every node and list)",
]


def to_coq(c, o):
    oo = o.get("ok", {})
    res = (oo.get("res") or {})
    if "ok" not in res or oo.get("labels") is None:
        return None
    labs = clist(f"(mkLO {cz(n if n is not None else -1)} {cz(dd if dd is not None else -1)} {cz(w if w is not None else -1)} {clist(f'({cn(k)}, {cz(v)})' for k, v in types)})"
                 for n, dd, w, types, *_ in oo["labels"])
    return f"KLab {grammars.c_decl(c['decl'])} {grammars.c_value(res['ok'])} {labs}"


def family():
    S = lambda i: ["sym", i]  # noqa: E731
    INT, BOOL = ["base", "int"], ["base", "bool"]
    A = lambda parent=None, deco=False: {"parent": parent, "abs": "deco" if deco else "abc", "fields": [], "weight": None}  # noqa: E731
    P = lambda parent, *fields: {"parent": parent, "abs": None, "fields": list(fields), "weight": None}  # noqa: E731
    H = lambda classes, xdepth=False: {"classes": classes, "considered": list(range(len(classes))), "start": 0, "xdepth": xdepth}  # noqa: E731
    fam = []
    for xd in (False, True):
        fam.append(H([A(), P(0), P(0, INT), P(0, S(0), S(0)), P(0, ["list", S(0)])], xd))                                  # lists of nodes
        fam.append(H([A(), P(0), P(0, ["ann", ["list", ["list", S(0)]], ["listsize", 1, 2, True]]), P(0, S(0))], xd))     # nested lists
        fam.append(H([A(), A(0, True), A(1, True), P(2), P(2, S(0)), P(1, S(1), S(2)), P(0, S(0), INT)], xd))             # multi-level abstract hierarchy
        fam.append(H([A(), P(0), P(0, ["tuple", [S(0), INT]]), P(0, ["tuple", [BOOL, INT]], S(0))], xd))                  # nodes inside tuples (F40)
        fam.append(H([A(), P(0), P(0, ["union", [S(0), INT]], ["list", INT])], xd))
    return fam


def gen_offspring(seed, tier):
    """programs reached by sequences of mutations and crossovers of the tree representation (reused subtrees must not carry stale values)"""
    from harness.props import rep_common as rc
    r = flow.rng(seed, "c11o")
    big = tier == "thorough"
    cases = []
    fam = family()
    # tree crossover only transplants donor subtrees when the start symbol is a concrete production (known finding F13):
    # the same hierarchies with a recursive concrete production as the start symbol
    for d in family():
        for i, cl in enumerate(d["classes"]):
            if cl["abs"] is None and any('"sym"' in json.dumps(t) for t in cl["fields"]):
                fam.append(dict(d, start=i))
                break
    for d in fam:
        for dec in (["max", 4], ["pi", 5], ["full", 3]):
            for _ in range(1 if not big else 4):
                cases.append({"op": "rep", "decl": d, "rep": {"kind": "tree", "decider": dec}, "seed": r.randrange(10**6), "ops": rc.breeding_ops(5 if not big else 10)})
                cases.append({"op": "rep", "decl": d, "rep": {"kind": "tree", "decider": dec}, "seed": r.randrange(10**6), "ops": rc.gen_ops(r, 8)})
    return cases


def offspring_entries(cases, res):
    """(case, observation in the shape of a creation, Coq term) for every tree the operations returned"""
    out = []
    for c, o in zip(cases, res):
        oo = o.get("ok", o)
        if oo.get("phase") != "ops":
            continue
        for i, rec in enumerate(oo["ops"]):
            ok = (rec.get("res") or {}).get("ok")
            if not ok or rec["op"][0] not in ("create", "mutate", "cross"):
                continue
            trees = [(ok["geno"], ok["labels"])] if rec["op"][0] != "cross" else list(zip(ok["genos"], ok["labels"]))
            for geno, labels in trees:
                if geno[0] != "tree" or labels is None:
                    continue
                cc = {"op": "rep", "decl": c["decl"], "rep": c["rep"], "seed": c["seed"], "ops": c["ops"], "index": i, "kind": rec["op"][0]}
                obs = {"ok": {"res": {"ok": geno[1]}, "labels": labels}}
                out.append((cc, obs, to_coq(cc, obs)))
    return out


def gen(seed, tier):
    r = flow.rng(seed, "c11")
    big = tier == "thorough"
    cases = []
    fam = family()
    for d in fam:
        for src in sy.gen_sources(r, n_record=4 if not big else 12, extremes=("max", "alt"), ge=2):
            for dec in (["max", 4], ["pi", 5]):
                cases.append({"op": "create", "decl": d, "decider": dec, "src": src, "labels": True})
    # programs are created under one depth mode first, then under the other, over the same classes
    for d in fam[:3]:
        other = dict(d, xdepth=not d["xdepth"])
        for src in sy.gen_sources(r, n_record=2, extremes=("max",), ge=0):
            cases.append({"op": "create", "decl0": other, "decl": d, "decider": ["max", 4], "src": src, "labels": True})
            cases.append({"op": "create", "decl0": d, "decl": other, "decider": ["max", 4], "src": src, "labels": True})
    for _ in range(200 if big else 50):
        d = grammars.gen_decl(r, {"weights": False, "tuples": True})
        for src in sy.gen_sources(r, n_record=1, extremes=(), ge=1):
            cases.append({"op": "create", "decl": d, "decider": ["max", r.randrange(2, 6)], "src": src, "labels": True})
    return cases


def describe(c, o):
    oo = o.get("ok", o)
    if c.get("op") == "rep":
        return ("classes:\n" + grammars.source(c["decl"])[len(grammars.HEADER):] + f"expansion_depthing={c['decl']['xdepth']} tree representation {c['rep']} shared seed={c['seed']} "
                f"operation #{c['index']} ({c['kind']}) of {c['ops']} returned {json.dumps(oo['res']['ok'])[:500]} labels(pre-order: nodes, distance, weighted, types)={str(oo.get('labels'))[:500]}")
    return sy.describe(c, o) + f" labels(pre-order: nodes, distance, weighted, types)={str(oo.get('labels'))[:500]}"


def run(tier, seed, replay=None):
    chk = core.Check("C11", tier, seed)
    proof = core.proof_step("C11", thorough=(tier == "thorough"))
    cases = [] if (replay and replay["replay"].get("case", {}).get("op") == "rep") else [replay["replay"]["case"]] if replay else gen(seed, tier)
    res = core.run_impl("synth", {"cases": cases}) if cases else []
    if isinstance(res, dict) and res.get("driver_failed"):
        chk.violation("correspondence", "the implementation could not be driven: " + res["stderr"][-600:], {"component": "labels", "stderr": res["stderr"]}, False)
        return chk.finish(proof, TRUSTED, {"evaluations": 0, "distinct_nontrivial": 0}, "see DESIGN")
    pairs = [(c, o, to_coq(c, o)) for c, o in zip(cases, res)]
    used = [(c, o, t) for c, o, t in pairs if t is not None]
    # programs produced by mutation and crossover (and the creations in between), every node observed right after the operation
    if replay and replay["replay"].get("case", {}).get("op") == "rep":
        ocases, used = [dict(replay["replay"]["case"])], []
    else:
        ocases = [] if replay else gen_offspring(seed, tier)
    n_off = 0
    if ocases:
        ores = core.run_impl("reps", {"cases": ocases}, timeout=1500)
        if isinstance(ores, dict) and ores.get("driver_failed"):
            chk.violation("correspondence", "the tree representation could not be driven: " + ores["stderr"][-600:], {"component": "labels of offspring", "stderr": ores["stderr"]}, False)
        else:
            off = offspring_entries(ocases, ores)
            if replay:
                off = [e for e in off if e[0]["index"] == replay["replay"]["case"].get("index")] or off
            n_off = len(off)
            used += off
    known = {k["id"]: k for k in core.known_findings("C11")}
    lists = core.run_cases("C11", IMPORTS, [t for _, _, t in used], run_fn="run_c11", chunk=60, nlists=3)
    corr, orac, f40 = lists
    if f40:
        if "F40" in known:
            chk.known_hit.append(f"F40: {known['F40']['what_fails']}")
        else:
            orac = sorted(set(orac) | set(f40))
    for i in orac[:3]:
        c, o, t = used[i]
        chk.violation("oracle", "[node metadata] " + describe(c, o), {"component": "node metadata", "driver": "synth", "case": c, "observed": o, "coq_term": t[:4000]}, True)
    corr_only = [i for i in corr if i not in set(orac)]
    if corr_only and not orac:
        c, o, t = used[min(corr_only, key=lambda j: len(used[j][2]))]
        chk.violation("correspondence", f"model and implementation disagree on the node metadata ({len(corr_only)} of {len(used)} programs); smallest: " + describe(c, o),
                      {"component": "node metadata", "correspondence_no_longer_checks": "relabel_nodes", "driver": "synth", "case": c, "observed": o, "coq_term": t[:4000]}, False)
    # the type index of every node lists objects of its own subtree (by identity): a reused subtree must not drag along entries of the donor program
    for c, o, t in used:
        if any(len(lab) > 5 and lab[5] == "foreign-entry" for lab in o["ok"]["labels"]):
            chk.violation("oracle", "[node metadata] gengy_types_this_way of a node lists an object that is not part of that node's subtree (stale entry of another program): " + describe(c, o),
                          {"component": "node metadata", "case": c, "observed": o}, True)
            break
    # every object must be labelled at all
    for c, o, t in used:
        if any(not lab[4] or None in lab[:3] for lab in o["ok"]["labels"]):
            chk.violation("oracle", "[node metadata] a node of a created program carries no metadata: " + describe(c, o), {"component": "node metadata", "case": c, "observed": o}, True)
            break
    if replay and used:
        print("replayed:", describe(used[0][0], used[0][1]))
        print("correspondence", "FAILS" if corr else "ok", "| contract", "FAILS" if orac else "holds")
    sizes = {}
    for c, o, t in used:
        n = len(o["ok"]["labels"])
        b = "1" if n <= 1 else "2-5" if n <= 5 else "6-20" if n <= 20 else ">20"
        sizes[b] = sizes.get(b, 0) + 1
    chk.samples = [{"source": grammars.source(c["decl"])[len(grammars.HEADER):], "program": o["ok"]["res"], "labels": o["ok"]["labels"][:6]} for c, o, t in used[:: max(1, len(used) // 3)]][:3]
    cov = {
        "evaluations": len(cases) + n_off, "programs_with_labels_compared": len(used), "offspring_and_intermediate_programs": n_off,
        "distinct_nontrivial": len({t for c, o, t in used if len(o["ok"]["labels"]) >= 3}),
        "traces_validated_against_impl": len(used),
        "correspondence_mismatches": len(corr), "oracle_failures": len(orac), "known_region_hits": {"F40": len(f40)},
        "input_distribution": {"expansion_depthing": sum(1 for c, _, _ in used if c["decl"]["xdepth"]), "labelled_objects_per_program": sizes},
        "exhaustive": False,
    }
    rule = ("case = hierarchy (lists of nodes, nested lists, multi-level abstract layers, nodes inside tuples, unions; both depth modes) x decider x source; observed: gengy_nodes / gengy_distance_to_term / "
            "gengy_weighted_nodes / gengy_types_this_way of EVERY node and list of the created program, in pre-order; non-trivial = a program with >= 3 labelled objects; distinct by the encoded case")
    return chk.finish(proof, TRUSTED, cov, rule)
