"""C12 — the reported best individual really is the best one evaluated."""
from __future__ import annotations

import itertools
import json

from harness import core, flow
from harness.core import cz, cN, cq, cbool, clist
from harness.props import search_common as sc
from harness.props import c14 as c14mod

TRUSTED = [
    "Coq 8.16.1 kernel; vm_compute for generated cases; no native_compute",
    "model: coq/Model/Search.v (so_post, mo_post, rebuild_front, tr_best, loops), hand-written from evaluation/tracker.py, problems/__init__.py, algorithms/*.py",
    "correspondence harness: harness/props/c12.py, harness/drivers/search.py (recorder subclass logging (individual, is_best); synthetic representation)",
    "fitness values are exact rationals (every finite float is one); NaN/inf fitness outside the model",
    "individuals evaluated inside a step through evaluator.evaluate and then dropped never reach the tracker (known finding F20): the theorems speak about individuals presented to the tracker",
]


def to_coq(c, o):
    if "driver_exc" in o:
        raise core.HarnessError(f"driver failed: {o}")
    if c["op"] == "c14":
        return sc.search_case_to_coq(c, o)
    table = sc.c_table(list(enumerate(c["table"])))

    def obs(x):
        return f"({clist('(' + cN(i) + ', ' + cbool(f) + ')' for i, f in x['log'])}, {clist(map(cN, x['bests']))})"

    return f"K12 {table} {sc.c_problem(c['problem'])} {cbool(c['mo'])} {cbool(c['par'])} {clist(clist(map(cN, b)) for b in c['batches'])} {clist(sc.c_pyres(x, obs) for x in o['obs'])}"


def gen(seed, tier):
    r = flow.rng(seed, "c12")
    big = tier == "thorough"
    cases = []
    # exhaustive small histories: every sequence of length <= L over three fitness values, both directions,
    # both trackers; each individual presented on its own (like random search)
    L = 6 if big else 4
    vals = [sc.jq(0), sc.jq(1), sc.jq(2)]
    for n in range(1, L + 1):
        for hist in itertools.product(range(3), repeat=n):
            table = [[vals[v]] for v in hist]
            for mn in (False, True):
                cases.append({"op": "c12", "table": table, "problem": {"kind": "so", "min": mn}, "mo": False, "par": False, "batches": [[i] for i in range(n)]})
                if n <= (5 if big else 3):
                    cases.append({"op": "c12", "table": table, "problem": {"kind": "mo", "min": [mn], "agg": None}, "mo": True, "par": False, "batches": [[i] for i in range(n)]})
    # random longer histories: ties, plateaus, improvements after plateaus, batches, re-presented individuals
    for _ in range(300 if big else 100):
        mo = r.random() < 0.5
        prob, nobj = sc.gen_problem(r, None if mo else 1)
        if not mo and prob["kind"] != "so":
            mo = True
        n = r.randrange(2, 10)
        table = sc.gen_table(r, n, nobj, values=sc.VALUES[:5])
        order = list(range(n)) + [r.randrange(n) for _ in range(r.randrange(0, 3))]
        r.shuffle(order)
        batches = []
        while order:
            k = r.randrange(1, 4)
            batches.append(order[:k])
            order = order[k:]
        cases.append({"op": "c12", "table": table, "problem": prob, "mo": mo, "par": False, "batches": batches})
    # fitness functions answering with numpy scalars (unsigned error counts, float32 losses): the same numbers, so the same history
    for k in range(60 if big else 24):
        dtype = ["uint8", "uint64", "int32", "float32", "uint16", "float64"][k % 6]
        n = r.randrange(2, 8)
        mo = k % 4 == 3
        table = [[sc.jq(r.choice([0, 1, 2, 3, 200]))] * (2 if mo else 1) for _ in range(n)]
        mn = r.random() < 0.7
        prob = {"kind": "mo", "min": [mn, mn], "agg": None, "dtype": dtype} if mo else {"kind": "so", "min": mn, "dtype": dtype}
        cases.append({"op": "c12", "table": table, "problem": prob, "mo": mo, "par": False, "batches": [[i] for i in range(n)]})
    for _ in range(6 if big else 3):
        n = 3
        cases.append({"op": "c12", "table": sc.gen_table(r, n, 1), "problem": {"kind": "so", "min": r.random() < 0.5}, "mo": False, "par": True, "batches": [[0, 1], [2, 0]]})
    return cases


def describe(c, o):
    if c["op"] == "c14":
        return c14mod.describe(c, o)
    return f"tracker={'multi' if c['mo'] else 'single'}-objective problem={c['problem']} fitness table={c['table']} batches={c['batches']} observed={json.dumps(o)[:500]}"


def nontrivial(c, o):
    if c["op"] == "c14":
        return c14mod.nontrivial(c, o)
    return isinstance(o, dict) and len(c["table"]) >= 2 and any("ok" in x for x in o.get("obs", []))


def run(tier, seed, replay=None):
    chk = core.Check("C12", tier, seed)
    proof = core.proof_step("C12", thorough=(tier == "thorough"))
    if replay:
        cases = [replay["replay"]["case"]]
        tracker_cases = [c for c in cases if c["op"] == "c12"]
        search_cases = [c for c in cases if c["op"] == "c14"]
    else:
        tracker_cases = gen(seed, tier)
        # "the value returned by the search is that individual": all four algorithms, both trackers
        search_cases = c14mod.gen(seed, "quick", salt="c12", small=True)
    outs1, corr1, orac1 = ([], [], [])
    if tracker_cases:
        outs1, corr1, orac1 = flow.differential(chk, "search", tracker_cases, to_coq, sc.IMPORTS, run_fn="run_c12", describe=describe,
                                                 component="progress trackers", kind=lambda c: ("mo" if c["mo"] else "so") + str(c["problem"].get("min")))
    outs2, corr2, orac2 = ([], [], [])
    if search_cases:
        outs2, corr2, orac2 = flow.differential(chk, "search", search_cases, to_coq, sc.IMPORTS, run_fn="run_c14", describe=describe,
                                                 component="search returns the tracker's best", kind=lambda c: c["algo"] + str(c["mo"]))
    cases = tracker_cases + search_cases
    outs = (outs1 or []) + (outs2 or [])
    if replay and outs:
        print("replayed:", describe(cases[0], outs[0]))
        print("correspondence", "FAILS" if (corr1 or corr2) else "ok", "| contract", "FAILS" if (orac1 or orac2) else "holds")
    if outs:
        chk.samples = [{"case": c, "observed": o} for c, o in list(zip(cases, outs))[:: max(1, len(cases) // 5)]][:5]
    cov = {
        "evaluations": len(cases),
        "distinct_nontrivial": flow.distinct_nontrivial(cases, outs, nontrivial) if outs else 0,
        "traces_validated_against_impl": len(cases),
        "correspondence_mismatches": len(corr1) + len(corr2), "oracle_failures": len(orac1) + len(orac2),
        "input_distribution": {"tracker_histories": len(tracker_cases), "single_objective": sum(1 for c in tracker_cases if not c["mo"]),
                               "multi_objective": sum(1 for c in tracker_cases if c["mo"]), "minimising": sum(1 for c in tracker_cases if c["problem"].get("min") is True or c["problem"].get("min") == [True]),
                               "searches": len(search_cases)},
        "exhaustive": False,
        "exhaustive_parts": f"all fitness histories of length <= {6 if tier == 'thorough' else 4} over 3 values x both directions (single-objective), length <= {5 if tier == 'thorough' else 3} (multi-objective)",
    }
    rule = ("case = fitness history presented to a tracker in batches (exhaustive small histories over 3 values; random histories with ties, plateaus, re-presented individuals), "
            "or a whole search (RS, 1+1, HC, GP) on a table-backed fitness function; non-trivial = >= 2 individuals and the tracker ran; distinct by canonical JSON")
    return chk.finish(proof, TRUSTED, cov, rule)
