"""C13 — fitness is computed from the phenotype, once, and counted honestly; evaluators agree."""
from __future__ import annotations

import json

from harness import core, flow
from harness.core import cz, cN, cq, cbool, clist
from harness.props import search_common as sc

TRUSTED = [
    "Coq 8.16.1 kernel; vm_compute for generated cases; no native_compute",
    "model: coq/Model/Search.v (evaluate, eval_seq, eval_par, caches), hand-written from problems/__init__.py, evaluation/{api,sequential,parallel}.py, solutions/individual.py",
    "correspondence harness: harness/props/c13.py, harness/drivers/search.py (synthetic representation, table-backed fitness functions logging every invocation to a file)",
    "partial: worker scheduling is runtime behaviour — the model takes the order of invocations as an arbitrary permutation and relies on pathos ProcessingPool.map returning results in argument order (trusted, exercised with the real pool)",
    "fitness values are exact rationals (dyadic in the correspondence run); NaN/inf fitness outside the model",
]


def to_coq(c, o):
    if "driver_exc" in o:
        raise core.HarnessError(f"driver failed: {o}")
    table = sc.c_table(list(enumerate(c["table"])))
    probs = clist(sc.c_problem(p) for p in c["problems"])
    calls = clist(f"({cN(pid)}, {clist(map(cN, b))})" for pid, b in c["calls"])

    def obs(x):
        caches = clist(f"(({cN(i)}, {cN(q)}), ({cq(sc.fr(f[0]))}, {clist(cq(sc.fr(v)) for v in f[1])}))" for i, q, f in x["caches"])
        log = clist(f"({cN(i)}, {cN(q)})" for i, q in x["log"])
        return f"(mkO13 {cz(x['count'])} {caches} {log})"

    return f"K13 {table} {probs} {cbool(c['par'])} {calls} {clist(sc.c_pyres(x, obs) for x in o['obs'])}"


def gen_case(r, par):
    nobj = r.choice([1, 2, 3])
    nprob = r.choice([1, 1, 2])
    problems = [sc.gen_problem(r, nobj)[0] for _ in range(nprob)]
    n = r.randrange(1, 5 if par else 7)
    table = sc.gen_table(r, n, nobj)
    calls = []
    for _ in range(r.randrange(1, 3 if par else 6)):
        k = r.choice([0, 1, 1, 2, 3, 4, 6])
        if par:
            k = min(k, 3)
        batch = [r.randrange(n) for _ in range(k)]
        if r.random() < 0.3 and batch:
            batch.append(batch[0])  # the same individual twice in one batch
        calls.append([r.randrange(nprob), batch])
    return {"op": "c13", "table": table, "problems": problems, "par": par, "calls": calls}


def gen(seed, tier):
    r = flow.rng(seed, "c13")
    big = tier == "thorough"
    cases = [gen_case(r, False) for _ in range(400 if big else 150)]
    cases += [gen_case(r, True) for _ in range(40 if big else 10)]
    # boundary: single individual, empty batch, all-evaluated batch re-presented, minimise everything
    for par in (False, True):
        cases.append({"op": "c13", "table": [[[1, 1]]], "problems": [{"kind": "so", "min": True}], "par": par, "calls": [[0, [0]], [0, [0]], [0, []]]})
        cases.append({"op": "c13", "table": [[[1, 1], [2, 1]], [[3, 1], [-1, 2]]], "problems": [{"kind": "mo", "min": [True, False], "agg": None}, {"kind": "mo", "min": True, "agg": None}],
                      "par": par, "calls": [[0, [0, 1, 0]], [1, [1, 1]], [0, [1, 0]], [1, [0]]]})
    # worker timing: distinct fitness values, the first individuals of the batch finish LAST (and other orders)
    for delays in ([0.45, 0.3, 0.15, 0.0], [0.0, 0.3, 0.1, 0.2], [0.3, 0.0, 0.3, 0.0]):
        for spec in ({"kind": "so", "min": False}, {"kind": "mo", "min": [True, False], "agg": None}):
            nobj = 1 if spec["kind"] == "so" else 2
            cases.append({"op": "c13", "table": [[[10 * (i + 1) + j, 1] for j in range(nobj)] for i in range(4)], "problems": [spec], "par": True,
                          "calls": [[0, [0, 1, 2, 3]]], "delays": delays})
    return cases


def describe(c, o):
    return f"problems={c['problems']} table={c['table']} evaluator={'parallel' if c['par'] else 'sequential'} calls={c['calls']} observed={json.dumps(o)[:600]}"


def nontrivial(c, o):
    return isinstance(o, dict) and any("ok" in x and x["ok"]["count"] >= 1 for x in o.get("obs", [])) and sum(len(b) for _, b in c["calls"]) >= 2


def run(tier, seed, replay=None):
    chk = core.Check("C13", tier, seed)
    proof = core.proof_step("C13", thorough=(tier == "thorough"))
    cases = [replay["replay"]["case"]] if replay else gen(seed, tier)
    outs, corr, orac = flow.differential(chk, "search", cases, to_coq, sc.IMPORTS, run_fn="run_c13", describe=describe,
                                          component="evaluators and fitness caches", kind=lambda c: "par" if c["par"] else "seq")
    n_pairs = 0
    if outs and not replay:
        # parallel = sequential: run the parallel cases again with the sequential evaluator and compare what is observable
        par_cases = [c for c in cases if c["par"]]
        seq_twins = [dict(c, par=False) for c in par_cases]
        res = core.run_impl("search", {"cases": seq_twins})
        if isinstance(res, list):
            par_outs = [o for c, o in zip(cases, outs) if c["par"]]
            for c, op, os_ in zip(par_cases, par_outs, res):
                n_pairs += 1
                a = [(x.get("ok") or {}).get("count") for x in op["obs"]], [(x.get("ok") or {}).get("caches") for x in op["obs"]], [x.get("exc") for x in op["obs"]]
                b = [(x.get("ok") or {}).get("count") for x in os_["obs"]], [(x.get("ok") or {}).get("caches") for x in os_["obs"]], [x.get("exc") for x in os_["obs"]]
                if a != b:
                    chk.violation("oracle", f"[parallel vs sequential] evaluators disagree on {describe(c, op)} ; sequential observed {json.dumps(os_)[:400]}",
                                  {"component": "parallel vs sequential", "driver": "search", "case": c, "observed": op, "sequential": os_}, True)
                    break
    if replay and outs:
        print("replayed:", describe(cases[0], outs[0]))
        print("correspondence", "FAILS" if corr else "ok", "| contract", "FAILS" if orac else "holds")
    if outs:
        chk.samples = [{"case": c, "observed": o} for c, o in list(zip(cases, outs))[:: max(1, len(cases) // 5)]][:5]
    cov = {
        "evaluations": len(cases) + n_pairs,
        "distinct_nontrivial": flow.distinct_nontrivial(cases, outs or [], nontrivial) if outs else 0,
        "traces_validated_against_impl": len(cases),
        "correspondence_mismatches": len(corr), "oracle_failures": len(orac),
        "input_distribution": {"sequential": sum(1 for c in cases if not c["par"]), "parallel": sum(1 for c in cases if c["par"]),
                               "two_problems": sum(1 for c in cases if len(c["problems"]) > 1),
                               "batches_with_duplicates": sum(1 for c in cases for _, b in c["calls"] if len(set(b)) < len(b)),
                               "multi_objective": sum(1 for c in cases if c["problems"][0]["kind"] == "mo")},
        "parallel_vs_sequential_pairs": n_pairs,
        "exhaustive": False,
    }
    rule = ("case = fitness table (dyadic values with ties) x 1-2 problems (single/multi objective, minimise flags, default or user aggregate) x a sequence of evaluator calls "
            "on batches with duplicates and already evaluated individuals; non-trivial = at least one evaluation happened and >= 2 individuals were presented; distinct by canonical JSON")
    return chk.finish(proof, TRUSTED, cov, rule)
