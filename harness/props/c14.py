"""C14 — searches terminate and stop at the first budget check after the budget is met."""
from __future__ import annotations

import json

from harness import core, flow
from harness.props import search_common as sc

TRUSTED = [
    "Coq 8.16.1 kernel; vm_compute for generated cases; no native_compute",
    "model: coq/Model/Search.v (is_done, check_done, rs_loop, hc_loop, population, gp_loop), hand-written from evaluation/budget.py, algorithms/{api,random_search,one_plus_one,hill_climbing}.py, algorithms/gp/{gp,population}.py",
    "the GP step is an oracle in the model: the populations it produced are observed on the implementation and fed to the model loop; the theorem quantifies over every sequence of populations that makes progress",
    "GP terminates only under 'progress' (each generation evaluates at least one new individual): known finding F23 (e.g. step=ElitismStep never terminates), proved as gp_no_progress_refuted",
    "wall-clock budgets (TimeBudget) are outside the model",
    "correspondence harness: harness/props/c14.py, harness/drivers/search.py (budget wrapper logging the counter at each is_done call)",
]

STEPS = [
    ["default"],
    ["seq", [["tournament", 2, False], ["crossover", 1], ["mutation", 1]]],
    ["novelty"],
    ["par", [["elitism"], ["novelty"]], [1, 1]],
    ["par", [["elitism"], ["novelty"], ["seq", [["tournament", 3, True], ["mutation", 1]]]], [1, 1, 2]],
    ["seq", [["tournament", 1, False], ["mutation", 1]]],
    ["mutation", 1],
]


def gen(seed, tier, salt="c14", small=False):
    r = flow.rng(seed, salt)
    big = tier == "thorough"
    cases = []
    ns = range(1, 41) if big else ([1, 2, 3, 5, 8, 13] if small else range(1, 13))
    for n in ns:
        for algo in ("rs", "opo", "hc", "gp"):
            mo = r.random() < 0.3
            prob, nobj = sc.gen_problem(r, None if mo else 1)
            mo = prob["kind"] != "so"
            c = {"op": "c14", "algo": algo, "problem": prob, "mo": mo, "table": sc.gen_table(r, r.randrange(3, 12), nobj), "budget": {"eval": n}, "seed": r.randrange(1000)}
            if algo == "hc":
                c["m"] = r.randrange(1, 6)
            if algo == "gp":
                c["pop"] = r.randrange(2, 10)
                c["step"] = r.choice(STEPS)
            # the evaluator is passed explicitly, left to the tracker's constructor, or the tracker itself is left to the algorithm
            # (several searches run in one interpreter: each must start counting from zero)
            c["ev"] = ["explicit", "tracker_default", "algo_default"][len(cases) % 3]
            cases.append(c)
    # target budgets: hit early, late, never (guarded by an evaluation budget), and disjunctions either way round
    for _ in range(60 if big else (8 if small else 24)):
        algo = r.choice(["rs", "opo", "hc", "gp"])
        table = sc.gen_table(r, r.randrange(3, 10), 1)
        target = r.choice([t[0] for t in table] + [sc.jq(99), sc.jq(sc.Fraction(1, 4))])
        if r.random() < 0.5:
            # fitness values just inside and just outside the tolerance band around the target (dyadic, so exact as floats), for
            # targets of magnitude 0, 1 and 10^5: the band is absolute (|c - t| < 10^-4), not relative to the target
            base = r.choice([sc.Fraction(0), sc.Fraction(1), sc.Fraction(-2), sc.Fraction(100000), sc.Fraction(-65536)])
            near = [sc.Fraction(1, 16384), sc.Fraction(-1, 16384), sc.Fraction(1, 8192), sc.Fraction(-1, 8192), sc.Fraction(3), sc.Fraction(-1, 2), sc.Fraction(1, 1024)]
            target = sc.jq(base)
            table = [[sc.jq(base + r.choice(near))] for _ in range(r.randrange(3, 10))]
        cap = {"eval": r.randrange(1, 25)}
        b = r.choice([{"anyof": [{"target": target}, cap]}, {"anyof": [cap, {"target": target}]}, {"anyof": [{"anyof": [cap, {"target": target}]}, {"eval": 1000}]}])
        c = {"op": "c14", "algo": algo, "problem": {"kind": "so", "min": r.random() < 0.5}, "mo": False, "table": table, "budget": b, "seed": r.randrange(1000)}
        if algo == "hc":
            c["m"] = r.randrange(1, 6)
        if algo == "gp":
            c["pop"] = r.randrange(2, 10)
            c["step"] = r.choice(STEPS)
        cases.append(c)
    # malformed: target budget on a multi-objective tracker (AssertionError)
    cases.append({"op": "c14", "algo": "rs", "problem": {"kind": "mo", "min": [True, False], "agg": None}, "mo": True, "table": sc.gen_table(r, 4, 2), "budget": {"target": sc.jq(1)}, "seed": 1})
    # boundary: budget already met at the first check
    cases.append({"op": "c14", "algo": "rs", "problem": {"kind": "so", "min": False}, "mo": False, "table": sc.gen_table(r, 4, 1), "budget": {"eval": 0}, "seed": 1})
    return cases


def describe(c, o):
    keys = {k: c[k] for k in ("algo", "budget", "m", "pop", "step", "problem", "seed") if k in c}
    return f"{keys} table={c['table']} observed checks={o.get('checks')} total={o.get('total')} returned={o.get('ret')} exc={o.get('exc')}"


def nontrivial(c, o):
    return isinstance(o, dict) and "exc" not in o and o.get("total", 0) >= 2


def run(tier, seed, replay=None):
    chk = core.Check("C14", tier, seed)
    proof = core.proof_step("C14", thorough=(tier == "thorough"))
    cases = [replay["replay"]["case"]] if replay else gen(seed, tier)
    outs, corr, orac = flow.differential(chk, "search", cases, sc.search_case_to_coq, sc.IMPORTS, run_fn="run_c14", describe=describe,
                                          component="search loops and budgets", kind=lambda c: c["algo"] + ("eval" if "eval" in c["budget"] else "other"))
    if outs:
        for c, o in zip(cases, outs):
            if "exc" not in o and o["invocations"] != o["total"]:
                chk.violation("oracle", f"[search loops] the evaluation counter ({o['total']}) differs from the number of fitness invocations ({o['invocations']}): {describe(c, o)}",
                              {"component": "counter vs invocations", "driver": "search", "case": c, "observed": o}, True)
                break
            if o.get("exc") == "Timeout":
                chk.violation("oracle", f"[search loops] the search did not terminate within the time limit: {describe(c, o)}",
                              {"component": "termination", "driver": "search", "case": c, "observed": o}, True)
                break
    if not replay:
        # known finding F23: its witness is replayed on the implementation; it is reported only while it still fails
        for k in core.known_findings("C14"):
            if k["id"] == "F23":
                w = core.run_impl("search", {"cases": [k["witness"]]})
                if isinstance(w, list) and w[0].get("exc") == "Timeout":
                    chk.known_hit.append(f"{k['id']}: {k['what_fails']}")
    if replay and outs:
        print("replayed:", describe(cases[0], outs[0]))
        print("correspondence", "FAILS" if corr else "ok", "| contract", "FAILS" if orac else "holds")
    if outs:
        chk.samples = [{"case": c, "observed": {k: v for k, v in o.items() if k != "table"}} for c, o in list(zip(cases, outs))[:: max(1, len(cases) // 5)]][:5]
    hist = {}
    for c in cases:
        hist[c["algo"]] = hist.get(c["algo"], 0) + 1
    cov = {
        "evaluations": len(cases),
        "distinct_nontrivial": flow.distinct_nontrivial(cases, outs or [], nontrivial) if outs else 0,
        "traces_validated_against_impl": len(cases),
        "correspondence_mismatches": len(corr), "oracle_failures": len(orac),
        "input_distribution": {"algorithms": hist, "evaluation_budgets": sum(1 for c in cases if "eval" in c["budget"]), "target_or_anyof": sum(1 for c in cases if "eval" not in c["budget"]),
                               "multi_objective": sum(1 for c in cases if c["mo"])},
        "exhaustive": False,
    }
    rule = ("case = algorithm (RS, 1+1, HC with neighbourhood 1..5, GP with population 2..9 and 7 step compositions) x budget (evaluation budgets n, target fitness hit early/late/never, "
            "disjunctions) x fitness table; observed: counter at every budget check, returned individual, total; non-trivial = the search evaluated >= 2 individuals and returned; distinct by canonical JSON")
    return chk.finish(proof, TRUSTED, cov, rule)
