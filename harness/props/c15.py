"""C15 — population size is invariant across generations and step compositions."""
from __future__ import annotations

import itertools
import json

from harness import core, flow
from harness.core import cz, cbool
from harness.props import search_common as sc
from harness.props import steps_common as st

TRUSTED = [
    "Coq 8.16.1 kernel; vm_compute for generated cases; no native_compute",
    "model: coq/Model/Steps.v (out_len, ranges, round_he, init_len), hand-written from algorithms/gp/operators/{combinators,crossover,mutation,selection,elitism,novelty,initializers}.py, representations/tree/operators.py",
    "the size model abstracts individuals away: it predicts how many individuals list(step.apply(...)) yields (or the exception class) from the step tree, the population size and the target size",
    "round(w*len/total) is modelled as round-half-even on exact rationals; the theorem does not depend on how shares are rounded (any non-negative shares)",
    "the parameterless / adaptive initialisers are time-driven and ignore the requested size by design (known finding F27): not part of init_len",
    "correspondence harness: harness/props/c15.py, harness/drivers/steps.py (real step objects on synthetic individuals; populations passed as list, Population object and one-shot generator)",
]

LEAVES = [["elitism"], ["novelty"], ["tournament", 1, False], ["tournament", 2, False], ["tournament", 5, True], ["mutation", 1], ["mutation", 0],
          ["crossover", 1], ["crossover", 0], ["identity"]]
W = [0, 1, 2, 5, 90]


def jw(ws):
    return [[w, 1] for w in ws]


def gen_step(r, depth, mo):
    if depth == 0 or r.random() < 0.35:
        leaves = LEAVES + ([["lexicase", False], ["lexicase", True]] if mo else [])
        return r.choice(leaves)
    kind = r.choice(["seq", "par", "excl"])
    n = r.randrange(1, 5)
    kids = [gen_step(r, depth - 1, mo) for _ in range(n)]
    if kind == "seq":
        return ["seq", kids]
    ws = [r.choice(W) for _ in range(n)]
    if r.random() < 0.1:
        ws = None
    elif sum(ws) == 0:   # a zero total is malformed; nested it may or may not surface (steps are lazy generators), so only the explicit top-level case below uses it
        ws[r.randrange(n)] = r.choice([1, 2, 5])
    return [kind, kids, jw(ws) if ws is not None else None]


def gen(seed, tier):
    r = flow.rng(seed, "c15")
    big = tier == "thorough"
    cases = []
    forms = ["list", "population", "oneshot"]
    # systematic: every weight vector over {0,1,2,5,90} (not all zero) for both parallel combinators
    lens = [2, 3, 4] if big else [2, 3]
    sizes = [2, 3, 5, 6, 9, 12] if big else [6, 9]
    kids_pool = [["novelty"], ["elitism"], ["mutation", 1], ["seq", [["tournament", 2, False], ["crossover", 1], ["mutation", 1]]]]
    for L in lens:
        for ws in itertools.product(W, repeat=L):
            if sum(ws) == 0:
                continue
            for n in sizes:
                for kind in ("par", "excl"):
                    cases.append({"op": "len", "step": [kind, [kids_pool[i % len(kids_pool)] for i in range(L)], jw(ws)], "n": n, "k": n, "form": forms[(n + L) % 3], "mo": False})
    # every single step, every size 0..12, every form
    for leaf in LEAVES + [["lexicase", False], ["lexicase", True]]:
        mo = leaf[0] == "lexicase"
        for n in range(0, 13):
            for form in forms:
                ks = {n, max(n - 1, 0), n // 2} if not big else set(range(0, n + 1))
                for k in ks:
                    cases.append({"op": "len", "step": leaf, "n": n, "k": k, "form": form, "mo": mo})
    # random step trees up to nesting depth 3
    for _ in range(2500 if big else 500):
        mo = r.random() < 0.3
        s = gen_step(r, 3, mo)
        n = r.choice([2, 2, 3, 4, 5, 6, 7, 9, 10, 11, 12])
        k = n if r.random() < 0.6 else r.randrange(0, n + 1)
        if r.random() < 0.05:
            # outside the claim (more requested than available): single steps only. In a nested tree an error raised by one lazy
            # generator surfaces only if a later step pulls that far (NoveltyStep never consumes its input), which the eager
            # size model does not describe; inside the claim (n >= k) no step fails, so laziness is irrelevant there.
            k = n + r.randrange(1, 3)
            s = gen_step(r, 0, mo)
        cases.append({"op": "len", "step": s, "n": n, "k": k, "form": r.choice(forms), "mo": mo, "seed": r.randrange(100)})
    # nested parallel inside a sequence (the consumed-iterator case), default GP step at small sizes
    for n in range(2, 13):
        cases.append({"op": "len", "step": ["seq", [["identity"], ["par", [["elitism"], ["novelty"]], jw([1, 1])]]], "n": n, "k": n, "form": "list", "mo": False})
        cases.append({"op": "len", "step": ["par", [["elitism"], ["novelty"], ["seq", [["tournament", 5, False], ["crossover", 0], ["mutation", 1]]]], jw([5, 5, 90])], "n": n, "k": n, "form": "population", "mo": False})
    # malformed: all-zero weights, empty combinators
    cases.append({"op": "len", "step": ["par", [["novelty"], ["novelty"]], jw([0, 0])], "n": 4, "k": 4, "form": "list", "mo": False})
    cases.append({"op": "len", "step": ["seq", []], "n": 4, "k": 2, "form": "list", "mo": False})
    # initialisers: every injected length 0..k+2
    for k in range(0, 7):
        for ini in (["standard"], ["full"], ["grow"], ["pigrow"], ["ramped"]):
            cases.append({"op": "init", "init": ini, "k": k, "seed": k})
        for m in range(0, k + 3):
            cases.append({"op": "init", "init": ["inject", m, ["standard"]], "k": k, "seed": m})
            if m % 2 == 0:
                cases.append({"op": "init", "init": ["inject", m, ["inject", 1, ["full"]]], "k": k, "seed": m})
            # one initialiser object asked several times (two runs sharing it; a larger request before a smaller one)
            for prior in ([k + 2], [k + 3, 1], [1], [m]):
                cases.append({"op": "init", "init": ["inject", m, ["standard"]], "k": k, "seed": m, "prior": prior})
        for ini in (["standard"], ["ramped"], ["inject", 3, ["inject", 2, ["grow"]]]):
            cases.append({"op": "init", "init": ini, "k": k, "seed": k, "prior": [k + 2, 1]})
    return cases


def to_coq(c, o):
    if "driver_exc" in o:
        raise core.HarnessError(f"driver failed: {o} on {c}")
    out = sc.c_pyres(o, cz)
    if c["op"] == "len":
        return f"KLen {cbool(c['mo'])} {st.c_step(c['step'])} {cz(c['n'])} {cz(c['k'])} {out}"
    return f"KInit {st.c_init(c['init'])} {cz(c['k'])} {out}"


def describe(c, o):
    return f"{json.dumps(c)} -> observed {o}"


def nontrivial(c, o):
    return "ok" in o and c.get("k", 0) >= 2 and (c["op"] == "init" or c["step"][0] in ("seq", "par", "excl"))


def run(tier, seed, replay=None):
    chk = core.Check("C15", tier, seed)
    proof = core.proof_step("C15", thorough=(tier == "thorough"))
    cases = [replay["replay"]["case"]] if replay else gen(seed, tier)
    step_cases = [c for c in cases if c["op"] in ("len", "init")]
    outs, corr, orac = flow.differential(chk, "steps", step_cases, to_coq, st.IMPORTS, run_fn="run_c15", describe=describe,
                                          component="step and initialiser sizes",
                                          kind=lambda c: c["op"] + ":" + (c["step"][0] if c["op"] == "len" else c["init"][0]) + ":" + c.get("form", ""))
    # whole GP runs: every generation seen by a recorder has exactly population_size individuals
    n_runs = 0
    if not replay:
        from harness.props import c14 as c14mod
        r = flow.rng(seed, "c15gp")
        runs = []
        for pop in ([2, 3, 5, 6, 7, 9, 10, 12] if tier == "quick" else range(2, 25)):
            for step in (["default"], ["par", [["elitism"], ["novelty"], ["seq", [["tournament", 2, False], ["crossover", 1], ["mutation", 1]]]], [1, 1, 1]],
                         ["seq", [["tournament", 3, True], ["crossover", 1], ["mutation", 1]]]):
                runs.append({"op": "c14", "algo": "gp", "pop": pop, "step": step, "problem": {"kind": "so", "min": False}, "mo": False,
                             "table": sc.gen_table(r, 7, 1), "budget": {"eval": pop * 4}, "seed": r.randrange(1000)})
        res = core.run_impl("search", {"cases": runs})
        if isinstance(res, dict):
            chk.violation("correspondence", "GP runs could not be driven: " + res["stderr"][-400:], {"component": "gp generation sizes", "stderr": res["stderr"]}, False)
        else:
            for c, o in zip(runs, res):
                n_runs += 1
                bad = [len(g) for g in o.get("gens", []) if len(g) != c["pop"]]
                if bad or "exc" in o:
                    chk.violation("oracle", f"[gp generation sizes] population_size={c['pop']} step={c['step']}: generation sizes {[len(g) for g in o.get('gens', [])]} exc={o.get('exc')}",
                                  {"component": "gp generation sizes", "driver": "search", "case": c, "observed": {k: v for k, v in o.items() if k != "table"}}, True)
                    break
    if not replay:
        for kf in core.known_findings("C15"):
            if kf["id"] == "F27":
                w = core.run_impl("steps", {"cases": [kf["witness"]]})
                if isinstance(w, list) and w[0].get("ok", kf["witness"]["k"]) != kf["witness"]["k"]:
                    chk.known_hit.append(f"{kf['id']}: {kf['what_fails']}")
    if replay and outs:
        print("replayed:", describe(cases[0], outs[0]))
        print("correspondence", "FAILS" if corr else "ok", "| contract", "FAILS" if orac else "holds")
    if outs:
        chk.samples = [{"case": c, "observed": o} for c, o in list(zip(step_cases, outs))[:: max(1, len(step_cases) // 6)]][:6]
    hist = {}
    for c in step_cases:
        key = c["op"] + ":" + (c["step"][0] if c["op"] == "len" else c["init"][0])
        hist[key] = hist.get(key, 0) + 1
    forms = {}
    for c in step_cases:
        forms[c.get("form", "-")] = forms.get(c.get("form", "-"), 0) + 1
    errs = {}
    for o in outs or []:
        if "exc" in o:
            errs[o["exc"]] = errs.get(o["exc"], 0) + 1
    cov = {
        "evaluations": len(step_cases) + n_runs,
        "distinct_nontrivial": flow.distinct_nontrivial(step_cases, outs or [], nontrivial) if outs else 0,
        "traces_validated_against_impl": len(step_cases),
        "correspondence_mismatches": len(corr), "oracle_failures": len(orac),
        "input_distribution": {"by_root": hist, "population_forms": forms, "error_kinds_observed": errs, "gp_runs": n_runs},
        "exhaustive": False,
        "exhaustive_parts": "all weight vectors over {0,1,2,5,90}^L (not all zero), L in " + ("2..4" if tier == "thorough" else "2..3") + ", both parallel combinators; every single step x sizes 0..12 x 3 population forms; injected lengths 0..k+2 for k in 0..6",
    }
    rule = ("case = (step tree up to nesting depth 3 over the built-in steps, population size, target size, population form) or (initialiser, target size); observed: len(list(step.apply(...))) or the exception class; "
            "non-trivial = a combinator or initialiser that returned a size with target >= 2; distinct by canonical JSON")
    return chk.finish(proof, TRUSTED, cov, rule)
