"""C16 — elitism keeps the best: top-k selection and monotone best fitness."""
from __future__ import annotations

import json

from harness import core, flow
from harness.core import cz, cN, clist
from harness.props import search_common as sc
from harness.props import steps_common as st

TRUSTED = [
    "Coq 8.16.1 kernel; vm_compute for generated cases; no native_compute",
    "model: coq/Model/Steps.v (elitism, sort_desc: stable descending insertion sort), hand-written from algorithms/gp/operators/elitism.py and problems/helpers.py (sort_population)",
    "CPython's sorted(key=..., reverse=True) is trusted to be a stable descending sort",
    "fitness values are exact rationals; NaN/inf outside the model",
    "best-fitness monotonicity is claimed for runs whose step reserves >= 1 elitism slot (the default 5% slot rounds to 0 for populations below 10: outside the claim, as the property says)",
    "correspondence harness: harness/props/c16.py, harness/drivers/steps.py, harness/drivers/search.py",
]


def to_coq(c, o):
    if "driver_exc" in o:
        raise core.HarnessError(f"driver failed: {o}")
    return (f"KElit {sc.c_table(list(enumerate(c['table'])))} {sc.c_problem(c['problem'])} {clist(map(cN, c['pop']))} {cz(c['k'])} "
            f"{sc.c_pyres(o, lambda l: clist(map(cN, l)))}")


def gen(seed, tier):
    r = flow.rng(seed, "c16")
    big = tier == "thorough"
    cases = []
    for _ in range(1500 if big else 400):
        n = r.randrange(1, 9)
        prob, nobj = sc.gen_problem(r)
        table = sc.gen_table(r, n, nobj, values=sc.VALUES[: r.choice([2, 3, 5, 9])])   # few values => many ties
        pop = list(range(n))
        if r.random() < 0.3:
            pop += [r.randrange(n) for _ in range(r.randrange(1, 3))]   # the same individual twice
        r.shuffle(pop)
        for k in (range(0, len(pop) + 2) if (big or len(pop) <= 4) else {1, len(pop) // 2, len(pop), r.randrange(0, len(pop) + 1)}):
            cases.append({"op": "elitism", "table": table, "problem": prob, "pop": pop, "k": k, "form": r.choice(["list", "oneshot", "population"])})
    cases.append({"op": "elitism", "table": [[[1, 1]]], "problem": {"kind": "so", "min": True}, "pop": [], "k": 1, "form": "list"})
    return cases


def describe(c, o):
    return f"{json.dumps(c)} -> observed {o}"


def nontrivial(c, o):
    return "ok" in o and len(c["pop"]) >= 3 and 1 <= c["k"] < len(c["pop"])


def run(tier, seed, replay=None):
    chk = core.Check("C16", tier, seed)
    proof = core.proof_step("C16", thorough=(tier == "thorough"))
    cases = [replay["replay"]["case"]] if replay else gen(seed, tier)
    outs, corr, orac = flow.differential(chk, "steps", cases, to_coq, st.IMPORTS, run_fn="run_c16", describe=describe,
                                          component="elitism", kind=lambda c: c["problem"]["kind"] + str(c["problem"]["min"]) + c["form"])
    # monotone best fitness over whole runs whose step reserves >= 1 elitism slot
    n_runs = 0
    if not replay:
        r = flow.rng(seed, "c16gp")
        runs = []
        for i in range(40 if tier == "thorough" else 15):
            mn = r.random() < 0.5
            # weight vectors whose elitism share of the population is >= 1 only after rounding (share in (0.5, 1)) as well as comfortably >= 1
            ws, pops = [([2, 1, 3], range(4, 13)), ([5, 5, 90], range(11, 20)), ([1, 0, 4], range(3, 5)), ([5, 5, 90], range(20, 31)), ([3, 2, 15], range(4, 7))][i % 5]
            pop = r.choice([n for n in pops if round(ws[0] * n / sum(ws)) >= 1])
            step = ["par", [["elitism"], ["novelty"], ["seq", [["tournament", 2, False], ["crossover", 1], ["mutation", 1]]]], ws]
            runs.append({"op": "c14", "algo": "gp", "pop": pop, "step": step, "problem": {"kind": "so", "min": mn}, "mo": False,
                         "table": sc.gen_table(r, 23, 1, values=[sc.Fraction(v) for v in range(-6, 7)]), "budget": {"eval": pop * (30 if tier == "thorough" else 12)}, "seed": r.randrange(1000)})
        res = core.run_impl("search", {"cases": runs})
        if isinstance(res, dict):
            chk.violation("correspondence", "GP runs could not be driven: " + res["stderr"][-400:], {"component": "best-fitness monotonicity", "stderr": res["stderr"]}, False)
        else:
            for c, o in zip(runs, res):
                n_runs += 1
                if "exc" in o:
                    chk.violation("correspondence", f"GP run raised {o['exc']}: {o.get('msg')}", {"component": "best-fitness monotonicity", "case": c, "observed": o.get("exc")}, False)
                    break
                fit = {i: sc.fr(comps[0]) for i, comps in o["table"]}
                sign = -1 if c["problem"]["min"] else 1
                bests = [max(sign * fit[i] for i in g) for g in o["gens"]]
                if any(b2 < b1 for b1, b2 in zip(bests, bests[1:])):
                    chk.violation("oracle", f"[best-fitness monotonicity] population={c['pop']} minimize={c['problem']['min']} step={c['step']} seed={c['seed']}: best (maximising) fitness per generation {[str(b) for b in bests]} got worse",
                                  {"component": "best-fitness monotonicity", "driver": "search", "case": c, "observed": {"gens": o["gens"], "table": o["table"]}}, True)
                    break
    if replay and outs:
        print("replayed:", describe(cases[0], outs[0]))
        print("correspondence", "FAILS" if corr else "ok", "| contract", "FAILS" if orac else "holds")
    if outs:
        chk.samples = [{"case": c, "observed": o} for c, o in list(zip(cases, outs))[:: max(1, len(cases) // 5)]][:5]
    cov = {
        "evaluations": len(cases) + n_runs,
        "distinct_nontrivial": flow.distinct_nontrivial(cases, outs or [], nontrivial) if outs else 0,
        "traces_validated_against_impl": len(cases),
        "correspondence_mismatches": len(corr), "oracle_failures": len(orac),
        "input_distribution": {"minimising": sum(1 for c in cases if c["problem"]["min"] is True), "multi_objective": sum(1 for c in cases if c["problem"]["kind"] == "mo"),
                               "with_duplicate_individuals": sum(1 for c in cases if len(set(c["pop"])) < len(c["pop"])), "gp_runs": n_runs,
                               "forms": {f: sum(1 for c in cases if c["form"] == f) for f in ("list", "oneshot", "population")}},
        "exhaustive": False,
    }
    rule = ("case = fitness table with ties x problem direction x population (with duplicate individuals) x elite count 0..|pop|+1 x population form; observed: the individuals ElitismStep yields, in order; "
            "non-trivial = population >= 3 and 1 <= k < |pop|; distinct by canonical JSON; plus whole GP runs observed per generation")
    return chk.finish(proof, TRUSTED, cov, rule)
