"""C17 — selection operators are sound (tournament and lexicase)."""
from __future__ import annotations

import json

from harness import core, flow
from harness.core import cz, cn, cN, cbool, clist
from harness.props import search_common as sc
from harness.props import steps_common as st

TRUSTED = [
    "Coq 8.16.1 kernel; vm_compute for generated cases; no native_compute",
    "model: coq/Model/Steps.v (tournament, lexicase, lex_filter, median/mad over Q), hand-written from algorithms/gp/operators/selection.py, solutions/individual.py (key_function), random/sources.py",
    "numpy.median / numpy.absolute in epsilon-lexicase are trusted to agree with the rational median (exercised with dyadic values)",
    "fitness values are exact rationals; NaN/inf outside the model",
    "correspondence harness: harness/props/c17.py, harness/drivers/steps.py (RecordingSource: scripted draws, records every choice() and shuffle()); exhaustive replay-and-branch over all draws for small populations",
]


def to_coq(c, o):
    if "driver_exc" in o:
        raise core.HarnessError(f"driver failed: {o}")
    table = sc.c_table(list(enumerate(c["table"])))
    src = st.c_src(c)
    pop = clist(map(cN, c["pop"]))
    if c["op"] == "tournament":
        out = sc.c_pyres(o, lambda l: clist(f"({cN(w)}, {clist(map(cN, g))})" for w, g in l))
        return f"KTour {table} {sc.c_problem(c['problem'])} {pop} {cn(c['k'])} {cn(max(c['size'], 0))} {cbool(c['repl'])} {src} {out}"
    out = sc.c_pyres(o, lambda l: clist(f"({cN(w)}, {clist(map(cn, g))})" for w, g in l))
    prob = {"kind": "mo", "min": list(c["mins"]), "agg": None}
    return f"KLex {table} {sc.c_problem(prob)} {clist(map(cbool, c['mins']))} {pop} {cn(c['k'])} {cbool(c['eps'])} {src} {out}"


def gen(seed, tier):
    r = flow.rng(seed, "c17")
    big = tier == "thorough"
    cases = []
    # exhaustive over ALL outcomes of the draws: tournaments on populations <= 3 (4 in thorough)
    for n in ([1, 2, 3] + ([4] if big else [])):
        for size in ([1, 2, n + 1] if n > 1 else [1, 2]):
            for repl in (False, True):
                for k in ([1, 2] if not big else [1, 2, 3]):
                    if (n ** size) ** k > (4000 if big else 600):
                        continue
                    for mn in (False, True):
                        table = sc.gen_table(r, n, 1, values=sc.VALUES[:3])
                        inner = {"op": "tournament", "table": table, "problem": {"kind": "so", "min": mn}, "pop": list(range(n)), "k": k, "size": size, "repl": repl, "carried": (n + size + k) % 2 == 0, "reused": (n + k) % 2 == 1}
                        cases.append({"op": "enum", "inner": inner, "limit": 5000})
    # exhaustive lexicase: populations <= 4 (thorough) / 3, <= 3 cases
    for n in ([2, 3] + ([4] if big else [])):
        for ncases in (1, 2, 3):
            for eps in (False, True):
                for k in ([1, 2] + ([n] if n > 2 else [])):
                    mins = [r.random() < 0.5 for _ in range(ncases)]
                    table = sc.gen_table(r, n, ncases, values=sc.VALUES[:3])
                    inner = {"op": "lexicase", "table": table, "mins": mins, "pop": list(range(n)), "k": k, "eps": eps}
                    cases.append({"op": "enum", "inner": inner, "limit": 1500 if not big else 6000})
    # random beyond: gene-backed draws (always valid), larger populations, duplicates, one-shot iterators
    for _ in range(500 if big else 150):
        n = r.randrange(2, 9)
        dna = [r.randrange(0, 2**63) for _ in range(r.randrange(3, 12))]
        pop = list(range(n)) + ([r.randrange(n)] if r.random() < 0.3 else [])
        if r.random() < 0.5:
            cases.append({"op": "tournament", "table": sc.gen_table(r, n, 1, values=sc.VALUES[:5]), "problem": {"kind": "so", "min": r.random() < 0.5}, "pop": pop,
                          "k": r.randrange(0, n + 3), "size": r.choice([1, 2, 3, 5, n + 2]), "repl": r.random() < 0.5, "dna": dna, "form": r.choice(["list", "oneshot"]), "carried": r.random() < 0.4, "reused": r.random() < 0.4})
        else:
            nc = r.randrange(1, 5)
            cases.append({"op": "lexicase", "table": sc.gen_table(r, n, nc, values=sc.VALUES[:5]), "mins": [r.random() < 0.5 for _ in range(nc)], "pop": pop,
                          "k": r.randrange(0, len(pop) + 1), "eps": r.random() < 0.5, "dna": dna, "form": r.choice(["list", "oneshot"])})
    # malformed: more winners than candidates (lexicase), tournament size 0
    cases.append({"op": "lexicase", "table": sc.gen_table(r, 2, 2), "mins": [True, False], "pop": [0, 1], "k": 3, "eps": False, "dna": [5, 7, 11]})
    cases.append({"op": "tournament", "table": sc.gen_table(r, 2, 1), "problem": {"kind": "so", "min": False}, "pop": [0, 1], "k": 1, "size": 0, "repl": False, "dna": [5, 7, 11]})
    return cases


def describe(c, o):
    return f"{json.dumps(c)} -> observed (winner, participants / case order) {o}"


def nontrivial(c, o):
    return "ok" in o and len(o["ok"]) >= 1 and len(c["pop"]) >= 2


def run(tier, seed, replay=None):
    chk = core.Check("C17", tier, seed)
    proof = core.proof_step("C17", thorough=(tier == "thorough"))
    cases = [replay["replay"]["case"]] if replay else gen(seed, tier)
    complete = {"v": True}

    def expand(cs, os_):
        fc, fo, comp = st.flatten_enum(cs, os_)
        complete["v"] = comp
        return fc, fo

    n_enum = sum(1 for c in cases if c["op"] == "enum")
    outs, corr, orac = flow.differential(chk, "steps", cases, to_coq, st.IMPORTS, run_fn="run_c17", describe=describe, expand=expand,
                                          component="selection operators", kind=lambda c: c["op"] + str(c.get("eps", c.get("repl"))), timeout=1800)
    if outs is not None:
        cases, outs = chk.expanded
    if replay and outs:
        print("replayed:", describe(cases[0], outs[0]))
        print("correspondence", "FAILS" if corr else "ok", "| contract", "FAILS" if orac else "holds")
    if outs:
        chk.samples = [{"case": c, "observed": o} for c, o in list(zip(cases, outs))[:: max(1, len(cases) // 5)]][:5]
    cov = {
        "evaluations": len(cases),
        "distinct_nontrivial": flow.distinct_nontrivial(cases, outs or [], nontrivial) if outs else 0,
        "traces_validated_against_impl": len(cases),
        "correspondence_mismatches": len(corr), "oracle_failures": len(orac),
        "input_distribution": {"tournament": sum(1 for c in cases if c["op"] == "tournament"), "lexicase": sum(1 for c in cases if c["op"] == "lexicase"),
                               "epsilon": sum(1 for c in cases if c.get("eps")), "with_replacement": sum(1 for c in cases if c.get("repl")),
                               "enumerated_configurations": n_enum, "scripted_tapes": sum(1 for c in cases if "tape" in c), "gene_sources": sum(1 for c in cases if "dna" in c)},
        "exhaustive": bool(complete["v"]),
        "exhaustive_parts": f"{n_enum} small configurations (tournament: populations <= {4 if tier == 'thorough' else 3}; lexicase: populations <= {4 if tier == 'thorough' else 3}, <= 3 cases) enumerated over ALL outcomes of the random draws by replay-and-branch; enumeration complete = {complete['v']}",
    }
    rule = ("case = (operator, fitness table, population, target size, parameters, decision sequence); for small configurations every decision sequence of the implementation is enumerated; "
            "observed: winners with the participants drawn (tournament) / the case order shuffled (lexicase); non-trivial = at least one winner from a population >= 2; distinct by canonical JSON")
    return chk.finish(proof, TRUSTED, cov, rule)
