"""C18 — random primitives honour their contracts for every random source."""
from __future__ import annotations

import itertools
import math

from harness import core, flow
from harness.core import cz, cn, cq, cbool, clist, cerr

MAXSIZE = 9223372036854775807
IMPORTS = "From GE Require Import Base Tape C18Check."

TRUSTED = [
    "Coq 8.16.1 kernel; vm_compute for the generated cases files; no native_compute",
    "model: coq/Model/Tape.v, hand-written from random/sources.py, ge.ListWrapper, stackgggp.ListWrapper, structured_ge.StructuredListWrapper, BaseDecider.random_int, DynamicSGEDecider.random_int/random_bool",
    "correspondence harness: harness/props/c18.py, harness/drivers/c18.py, harness/tape.py (ScriptedSource)",
    "floats abstracted to Q (bounds of random_float proved over exact arithmetic only: partial); weights in the correspondence run are dyadic so that float accumulation is exact",
    "CPython: int %, list indexing, round(log10(w)) (modelled on integers), random.Random seeding (same-seed-same-stream of the native source is exercised, not proved)",
]


# ------------------------------------------------------------------ Coq encoding
def c_src(s):
    if s["k"] == "native":
        ds = []
        for d in s["tape"]:
            ds.append(f"DI {cz(d[1])}" if d[0] == "i" else f"DF {cq(core.Fraction(d[1][0], d[1][1]))}")
        return f"(Native {clist(ds)})"
    kind = {"ge": "KGE", "stack": "KStack", "sge": "KSGE"}[s["k"]]
    return f"(LW {kind} {clist(cz(g) for g in s['dna'])} {cn(s.get('idx', 0))})"


def c_pyres(o, f):
    if "ok" in o:
        return f"(POk {f(o['ok'])})"
    return f"(PErr {cerr(o['exc'])})"


def frq(x):
    return core.Fraction(x[0], x[1])


def to_coq(c, o):
    op = c["op"]
    if op == "randints":
        reqs = clist(f"({cz(lo)}, {cz(hi)})" for lo, hi in c["reqs"])
        outs = clist(c_pyres(r, cz) for r in o["outs"])
        return f"KRandints {c_src(c['src'])} {reqs} {outs}"
    if op == "choice":
        return f"KChoice {c_src(c['src'])} {cn(c['n'])} {c_pyres(o, cz)}"
    if op == "choicew":
        return f"KChoiceW {c_src(c['src'])} {clist(cq(frq(w)) for w in c['ws'])} {c_pyres(o, cz)}"
    if op == "shuffle":
        return f"KShuffle {c_src(c['src'])} {clist(map(cz, c['l']))} {c_pyres(o, lambda l: clist(map(cz, l)))}"
    if op == "pop":
        return f"KPop {c_src(c['src'])} {clist(map(cz, c['l']))} {c_pyres(o, lambda r: '(' + cz(r[0]) + ', ' + clist(map(cz, r[1])) + ')')}"
    if op == "bool":
        return f"KBool {c_src(c['src'])} {c_pyres(o, cbool)}"
    if op == "baseint":
        return f"KBaseInt {c_src(c['src'])} {cz(c['lo'])} {cz(c['hi'])} {c_pyres(o, cz)}"
    if op == "dsgeint":
        return f"KDsgeInt {cz(c['gene'])} {cz(c['lo'])} {cz(c['hi'])} {c_pyres(o, cz)}"
    if op == "dsgebool":
        return f"KDsgeBool {cz(c['gene'])} {c_pyres(o, cbool)}"
    if op == "float":
        return f"KFloat {c_src(c['src'])} {cq(frq(c['lo']))} {cq(frq(c['hi']))} {c_pyres(o, lambda r: cq(frq(r)))}"
    raise ValueError(op)


# ------------------------------------------------------------------ generators
GENES = [0, 1, 2, 3, 7, 10, 255, 1024, 4561, 99999, MAXSIZE, MAXSIZE - 1, 2**62 + 12345, -1, -7, 12345678901234567]
BOUNDS = [(0, 0), (0, 1), (1, 1), (-3, 3), (0, 9), (5, 5), (-10, -2), (0, 255), (0, 1000), (0, 1001), (0, 4000), (-5000, 5000),
          (1, MAXSIZE), (0, MAXSIZE), (-(MAXSIZE - 1), MAXSIZE), (-MAXSIZE, MAXSIZE), (-10000, 10000), (7, 1008), (0, 10**12), (-2**40, 2**41)]


def rlog10(w):
    return round(math.log10(w))


def lw(r, kinds=("ge", "stack", "sge"), allow_empty=False):
    n = r.choice([0] if allow_empty and r.random() < 0.3 else [1, 1, 2, 3, 4, 6])
    dna = [r.choice(GENES) if r.random() < 0.6 else r.randrange(0, MAXSIZE) for _ in range(n)]
    return {"k": r.choice(kinds), "dna": dna, "idx": r.randrange(0, max(n, 1))}


def native(draws):
    return {"k": "native", "tape": [list(d) for d in draws]}


def gen(seed, tier):
    r = flow.rng(seed, "c18")
    big = tier == "thorough"
    cases = []
    # --- randint streams
    for _ in range(400 if big else 120):
        reqs = [r.choice(BOUNDS) if r.random() < 0.8 else tuple(sorted((r.randrange(-50, 50), r.randrange(-50, 50)))) for _ in range(r.randrange(1, 6))]
        if r.random() < 0.08:
            lo, hi = reqs[-1]
            reqs[-1] = (hi + 1, lo) if r.random() < 0.5 else (hi + 2, lo)  # malformed: empty / inverted range
        if r.random() < 0.5:
            tape = []
            for lo, hi in reqs:
                if lo <= hi:
                    v = r.choice([lo, hi, r.randint(lo, hi)])
                    if r.random() < 0.05:
                        v = hi + 1  # malformed tape
                    tape.append(("i", v))
            src = native(tape[: len(tape) - (1 if r.random() < 0.05 else 0)])
        else:
            src = lw(r, allow_empty=True)
        cases.append({"op": "randints", "src": src, "reqs": [list(q) for q in reqs]})
    # --- choice: every index for n <= 6 on the native source (exhaustive), gene sources random
    for n in range(0, 7):
        for i in range(max(n, 1)):
            cases.append({"op": "choice", "src": native([("i", i)]), "n": n})
        for _ in range(6):
            cases.append({"op": "choice", "src": lw(r), "n": n})
    # --- choice_weighted: zero weights first / last / all but one / all; boundary draws
    WS = [0, 0, 1, 2, 5, core.Fraction(1, 2), core.Fraction(1, 8), core.Fraction(3, 4), 90]
    wlists = [[0, 1], [1, 0], [0, 0, 1], [1, 0, 0], [0, 1, 0], [0, 0], [0], [1], [2, 3], [0, 5, 5, 90], [5, 5, 90], [0, core.Fraction(1, 2), 0, core.Fraction(1, 2)]]
    for _ in range(60 if big else 25):
        wlists.append([r.choice(WS) for _ in range(r.randrange(1, 5))])
    for ws in wlists:
        acc, accs = core.Fraction(0), []
        for w in ws:
            acc += core.Fraction(w)
            accs.append(int(acc * 100000))
        total = accs[-1]
        draws = {0, max(total - 1, 0), total, total // 2} | {a for a in accs} | {max(a - 1, 0) for a in accs}
        wsj = [[core.Fraction(w).numerator, core.Fraction(w).denominator] for w in ws]
        for d in sorted(draws):
            cases.append({"op": "choicew", "src": native([("i", d)]), "ws": wsj})
        for _ in range(4):
            cases.append({"op": "choicew", "src": lw(r), "ws": wsj})
    cases.append({"op": "choicew", "src": native([("i", 0)]), "ws": []})
    # --- shuffle: all decision sequences for lists up to length 4 (exhaustive), random beyond
    for n in range(0, 5):
        lst = [10 + i for i in range(n)]
        ranges = [range(0, i + 1) for i in reversed(range(1, n))]
        for combo in itertools.product(*ranges):
            cases.append({"op": "shuffle", "src": native([("i", j) for j in combo]), "l": lst})
    for _ in range(60 if big else 25):
        n = r.randrange(0, 8)
        cases.append({"op": "shuffle", "src": lw(r), "l": [r.randrange(0, 4) for _ in range(n)]})
    # --- pop_random: every position for lists up to length 5
    for n in range(0, 6):
        lst = [20 + i for i in range(n)]
        for i in range(max(n, 1)):
            cases.append({"op": "pop", "src": native([("i", i)]), "l": lst})
        for _ in range(3):
            cases.append({"op": "pop", "src": lw(r), "l": lst})
    # --- random_bool
    for i in (0, 1):
        cases.append({"op": "bool", "src": native([("i", i)])})
    for _ in range(10):
        cases.append({"op": "bool", "src": lw(r)})
    # --- BaseDecider.random_int: all bounds, all n, boundary e, both signs; gene sources
    for lo, hi in BOUNDS:
        w = hi - lo
        if w > 1000:
            emax = rlog10(w)
            for n in range(0, 11):
                for e in sorted({0, 1, 2, emax // 2, max(emax - 1, 0), emax}):
                    for b in (0, 1):
                        cases.append({"op": "baseint", "src": native([("i", n), ("i", e), ("i", b)]), "lo": lo, "hi": hi})
        else:
            for v in sorted({lo, hi, (lo + hi) // 2}):
                cases.append({"op": "baseint", "src": native([("i", v)]), "lo": lo, "hi": hi})
        for _ in range(12 if big else 5):
            cases.append({"op": "baseint", "src": lw(r, kinds=("ge", "sge")), "lo": lo, "hi": hi})
    # --- DynamicSGEDecider.random_int / random_bool: every gene value 0..1024 on small ranges (thorough), boundaries otherwise
    genes = range(0, 1025) if big else list(range(0, 40)) + [511, 512, 930, 1023, 1024]
    for lo, hi in [(0, 0), (3, 3), (0, 1), (0, 10), (-4, 4), (32, 128), (0, 128), (-MAXSIZE, MAXSIZE), (-5, -5)]:
        for g in genes:
            cases.append({"op": "dsgeint", "gene": g, "lo": lo, "hi": hi})
    # genes as the representation's mutate() writes them (0..sys.maxsize, far above what a fresh genotype holds), ranges wider than the
    # fresh genes' 0..1024
    for lo, hi in [(0, 1024), (0, 1025), (0, 5000), (-3000, 3000), (0, 10), (-4, 4), (1, 2000), (-MAXSIZE, MAXSIZE), (0, MAXSIZE)]:
        for g in [0, 7, 1024, 1025, 1026, 5000, 5001, 6001, 10**9 + 7, 2**40 + 1, MAXSIZE - 1, MAXSIZE] + [r.randrange(0, MAXSIZE) for _ in range(6 if big else 2)]:
            cases.append({"op": "dsgeint", "gene": g, "lo": lo, "hi": hi})
    for g in genes:
        cases.append({"op": "dsgebool", "gene": g})
    # --- random_float
    for _ in range(200 if big else 60):
        lo = core.Fraction(r.randrange(-64, 64), r.choice([1, 2, 4, 8]))
        hi = lo + core.Fraction(r.randrange(0, 64), r.choice([1, 2, 4, 8]))
        if r.random() < 0.4:
            u = core.Fraction(r.randrange(0, 1024), 1024)
            src = native([("f", [u.numerator, u.denominator])])
        else:
            src = lw(r)
            if r.random() < 0.3:
                src["dna"] = [r.choice([0, MAXSIZE, 9, 10])] * 2  # k = 1 / largest k
        cases.append({"op": "float", "src": src, "lo": [lo.numerator, lo.denominator], "hi": [hi.numerator, hi.denominator]})
    return cases


def nontrivial(c, o):
    if c["op"] == "randints":
        return any("ok" in x for x in o["outs"])
    return "ok" in o


def describe(c, o):
    return f"op={c['op']} input={ {k: v for k, v in c.items() if k != 'op'} } observed={o}"


def more_cases(failing):
    """search around mismatching inputs: same op and source, neighbouring bounds / tapes"""
    extra = []
    r = flow.rng(1, "c18more")
    for c in failing:
        for _ in range(200):
            d = dict(c)
            if "src" in d:
                s = dict(d["src"])
                if s["k"] == "native":
                    s["tape"] = [[t[0], (t[1] + r.randrange(-2, 3)) if t[0] == "i" else t[1]] for t in s["tape"]]
                else:
                    s["dna"] = [r.choice(GENES) for _ in s["dna"]] or [r.choice(GENES)]
                d["src"] = s
            if "gene" in d:
                d["gene"] = r.randrange(0, 1025)
            if "lo" in d and d["op"] != "float":
                lo, hi = r.choice(BOUNDS)
                d["lo"], d["hi"] = lo, hi
            extra.append(d)
    return extra


def run(tier, seed, replay=None):
    chk = core.Check("C18", tier, seed)
    proof = core.proof_step("C18", thorough=(tier == "thorough"))
    if replay is not None:
        cases = [replay["replay"]["case"]]
    else:
        cases = gen(seed, tier)
    outs, corr, orac = flow.differential(chk, "c18", cases, to_coq, IMPORTS, describe=describe, more_cases=more_cases,
                                          component="random primitives")
    # same seed, same stream for the native source (exercised in Python; CPython's contract)
    seeds = core.run_impl("c18", {"cases": [{"op": "seedstream", "seed": s, "reqs": [[0, 9], [-5, 5], [0, MAXSIZE], [3, 3]]} for s in range(0, 40 if tier == "thorough" else 10)]})
    n_seed = 0
    if isinstance(seeds, list):
        for s, o in enumerate(seeds):
            n_seed += 1
            if o.get("ok") != [True, True]:
                chk.violation("oracle", f"NativeRandomSource({s}): same seed gave different streams or a value out of range: {o}", {"component": "native seed", "case": {"op": "seedstream", "seed": s}, "observed": o}, True)
    if replay is not None and outs is not None:
        for c, o in zip(cases, outs):
            print("replayed:", describe(c, o))
            print("correspondence", "FAILS" if corr else "ok", "| contract", "FAILS" if orac else "holds")
    hist = {}
    for c in cases:
        key = c["op"] + ":" + c.get("src", {}).get("k", "-")
        hist[key] = hist.get(key, 0) + 1
    errkinds = {}
    if outs:
        for c, o in zip(cases, outs):
            for x in (o["outs"] if c["op"] == "randints" else [o]):
                if "exc" in x:
                    errkinds[x["exc"]] = errkinds.get(x["exc"], 0) + 1
        chk.samples = [{"case": c, "observed": o} for c, o in list(zip(cases, outs))[:: max(1, len(cases) // 6)]][:6]
    cov = {
        "evaluations": len(cases) + n_seed,
        "distinct_nontrivial": flow.distinct_nontrivial(cases, outs or [], nontrivial) if outs else 0,
        "traces_validated_against_impl": len(cases),
        "correspondence_mismatches": len(corr),
        "oracle_failures": len(orac),
        "input_distribution": hist,
        "error_kinds_observed": errkinds,
        "exhaustive": False,
        "exhaustive_parts": "choice n<=6 (all indices, native), shuffle len<=4 (all 1+1+2+6+24 decision sequences), pop_random len<=5 (all positions), dsge_random_int/bool all genes 0..1024 in thorough",
    }
    rule = ("cases = (operation, source, arguments); native tapes scripted in/out of range, gene sources from boundary genes "
            "(0, 1, sys.maxsize, negatives, random 63-bit); non-trivial = the implementation returned a value (not an exception); "
            "distinct = distinct canonical JSON of the case")
    return chk.finish(proof, TRUSTED, cov, rule)
