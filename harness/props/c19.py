"""C19 — production weights are normalised per non-terminal, stable and respected."""
from __future__ import annotations

import json

from harness import core, flow, grammars
from harness.core import clist
from harness.props import grammar_common as gc

TRUSTED = [
    "Coq 8.16.1 kernel; vm_compute for generated cases; no native_compute",
    "model: coq/Model/Grammar.v (get_weights, normalise_rule, normalise, store_weights, extract), hand-written from grammar/grammar.py (get_weights, update_weights, extract_grammar) and grammar/decorators.py; coq/Model/Tape.v (choice_weighted)",
    "weights are exact rationals in the model; the implementation's float results are compared with tolerance 1e-9 (float rounding: partial)",
    "the class attribute __gengy__['weight'] is modelled as the per-class weight of the decl, which persists from one extraction to the next",
    "correspondence harness: harness/props/c19.py, harness/drivers/grammar.py (class hierarchies materialised as real Python modules with `from __future__ import annotations`)",
]


def to_coq(c, o):
    if "exc" in o:
        # the whole case failed inside the implementation (e.g. it did not return): an observable, not a harness error
        return f"KGram {grammars.c_decl(c['decl'])} [PErr {core.cerr(o['exc'])}]"
    obs = clist(gc.c_pyres_gobs(x) for x in o["ok"]["extractions"])
    return f"KGram {grammars.c_decl(c['decl'])} {obs}"


def gen(seed, tier):
    r = flow.rng(seed, "c19")
    big = tier == "thorough"
    cases = []
    for _ in range(700 if big else 220):
        d = grammars.gen_decl(r, {"weights": True, "tuples": r.random() < 0.5})
        cases.append({"op": "extract", "decl": d, "times": r.choice([1, 2, 3])})
    # boundary: zero weights first / last / all; a weighted production reached only through a field; nested abstract types
    def hier(ws, considered=None):
        classes = [{"parent": None, "abs": "abc", "fields": [], "weight": None}]
        for w in ws:
            classes.append({"parent": 0, "abs": None, "fields": [], "weight": w})
        return {"classes": classes, "considered": considered if considered is not None else list(range(len(classes))), "start": 0, "xdepth": False}
    for ws in ([[0, 1], [1, 1]], [[1, 1], [0, 1]], [[0, 1], [0, 1]], [[2, 1], [1, 1]], [[2, 1], None], [None, [3, 1], None], [[1, 2], [1, 4], [1, 4]]):
        cases.append({"op": "extract", "decl": hier(ws), "times": 3})
    d = hier([[2, 1], None])
    d["classes"].append({"parent": None, "abs": "abc", "fields": [], "weight": None})          # C3 abstract
    d["classes"].append({"parent": 3, "abs": None, "fields": [], "weight": [2, 1]})           # C4(C3) weight 2, reached only through a field
    d["classes"].append({"parent": 3, "abs": None, "fields": [], "weight": None})             # C5(C3)
    d["classes"][2]["fields"] = [["sym", 3]]
    d["considered"] = [0, 1, 2]
    cases.append({"op": "extract", "decl": json.loads(json.dumps(d)), "times": 2})
    d2 = json.loads(json.dumps(d))
    d2["classes"][1]["weight"] = None                                                          # the only weights are on classes outside considered_subtypes
    d2["considered"] = [0, 1, 2, 5]
    cases.append({"op": "extract", "decl": d2, "times": 2})
    return cases


def gen_choosers(seed, tier):
    """weighted hierarchies under the weight-aware decider: zero weights first / in the middle / last, scripted draws at both
    ends of the range (draw 0 is where a zero-weight FIRST production would be picked), recorded streams"""
    from harness.props import synth_common as sy
    r = flow.rng(seed, "c19w")
    big = tier == "thorough"
    S = lambda i: ["sym", i]  # noqa: E731
    INT = ["base", "int"]
    A = {"parent": None, "abs": "abc", "fields": [], "weight": None}
    P = lambda w, *fields: {"parent": 0, "abs": None, "fields": list(fields), "weight": w}  # noqa: E731
    H = lambda classes: {"classes": classes, "considered": list(range(len(classes))), "start": 0, "xdepth": False}  # noqa: E731
    Z, ONE, TWO, Q = [0, 1], [1, 1], [2, 1], [1, 4]
    fam = []
    for ws in ([Z, ONE], [ONE, Z], [Z, None, TWO], [None, Z, Q], [Z, Z, ONE], [Q, ONE, Z], [Z, ONE, Z]):
        fam.append(H([dict(A)] + [P(w, INT) for w in ws]))                                   # terminal productions only
        fam.append(H([dict(A)] + [P(w, INT) for w in ws[:-1]] + [P(ws[-1], S(0), S(0))]))    # last one recursive
        fam.append(H([dict(A)] + [P(ws[0], S(0))] + [P(w, INT) for w in ws[1:]]))            # first one recursive
    cases = []
    for d in fam:
        srcs = [{"k": "extreme", "policy": "min"}, {"k": "extreme", "policy": "max"}, {"k": "extreme", "policy": "alt"}]
        srcs += [{"k": "record", "seed": r.randrange(10**6)} for _ in range(2 if not big else 8)]
        for src in srcs:
            cases.append({"op": "create", "decl": d, "decider": ["prog"], "src": src})
    for _ in range(40 if not big else 200):
        d = grammars.gen_decl(r, {"weights": True, "tuples": False, "dependent": False})
        for src in ({"k": "extreme", "policy": "min"}, {"k": "record", "seed": r.randrange(10**6)}):
            cases.append({"op": "create", "decl": d, "decider": ["prog"], "src": src})
    return cases


def describe(c, o):
    return "classes:\n" + grammars.source(c["decl"])[len(grammars.HEADER):] + f"considered={c['decl']['considered']} start=C{c['decl']['start']} extracted {c.get('times', 1)}x -> observed weights " + json.dumps([x.get("ok", {}).get("weights") if "ok" in x else x for x in o.get("ok", {}).get("extractions", [])])[:900]


def nontrivial(c, o):
    if "ok" not in o:
        return False
    e = o["ok"]["extractions"]
    return "ok" in e[0] and any(len(vs) >= 2 for _, vs in e[0]["ok"]["alts"]) and any(cl.get("weight") for cl in c["decl"]["classes"])


def run(tier, seed, replay=None):
    chk = core.Check("C19", tier, seed)
    proof = core.proof_step("C19", thorough=(tier == "thorough"))
    from harness.props import synth_common as sy
    w_replay = bool(replay and replay["replay"].get("driver") == "synth")
    cases = [] if w_replay else [replay["replay"]["case"]] if replay else gen(seed, tier)
    outs, corr, orac = (None, [], []) if w_replay else flow.differential(
        chk, "grammar", cases, to_coq, gc.IMPORTS, run_fn="run_c19", describe=describe,
        component="weight normalisation", kind=lambda c: str(c.get("times")), chunk=150)
    # last clause: the weight-aware chooser on weighted hierarchies (zero weights at every position, boundary draws)
    wcases = [replay["replay"]["case"]] if w_replay else [] if replay else gen_choosers(seed, tier)
    wouts, wcorr, worac = flow.differential(
        chk, "synth", wcases, sy.to_coq, sy.IMPORTS.replace("SynthCheck.", "SynthCheck WeightCheck."), run_fn="run_c19w", describe=sy.describe,
        component="weight-aware production choice (ProgressivelyTerminalDecider, choice_weighted)", kind=lambda c: c["src"]["k"], chunk=60) if wcases else (None, [], [])
    if w_replay and wouts:
        print("replayed:", sy.describe(wcases[0], wouts[0]))
        print("correspondence", "FAILS" if wcorr else "ok", "| contract", "FAILS" if worac else "holds")
    if replay and outs:
        print("replayed:", describe(cases[0], outs[0]))
        print("correspondence", "FAILS" if corr else "ok", "| contract", "FAILS" if orac else "holds")
    if outs:
        chk.samples = [{"source": grammars.source(c["decl"])[len(grammars.HEADER):], "considered": c["decl"]["considered"], "observed_weights": o["ok"]["extractions"][0].get("ok", {}).get("weights") if "ok" in o else o}
                       for c, o in list(zip(cases, outs))[:: max(1, len(cases) // 4)]][:4]
    errs = {}
    for o in outs or []:
        for x in (o.get("ok", {}).get("extractions", []) if "ok" in o else []):
            if "exc" in x:
                errs[x["exc"]] = errs.get(x["exc"], 0) + 1
    cov = {
        "weight_aware_choices": {"creations": len(wcases), "programs": sum(1 for o in wouts or [] if "ok" in (o.get("ok", {}).get("res") or {})),
                                 "correspondence_mismatches": len(wcorr), "oracle_failures": len(worac)},
        "evaluations": len(cases) + len(wcases),
        "distinct_nontrivial": flow.distinct_nontrivial(cases, outs or [], nontrivial) if outs else 0,
        "traces_validated_against_impl": len(cases),
        "correspondence_mismatches": len(corr), "oracle_failures": len(orac),
        "input_distribution": {"repeated_extractions": {str(k): sum(1 for c in cases if c.get("times") == k) for k in (1, 2, 3)},
                               "classes_weighted": sum(1 for c in cases for cl in c["decl"]["classes"] if cl.get("weight")),
                               "zero_weights": sum(1 for c in cases for cl in c["decl"]["classes"] if cl.get("weight") and cl["weight"][0] == 0),
                               "error_kinds_observed": errs},
        "exhaustive": False,
    }
    rule = ("case = generated class hierarchy (1-3 abstract layers, 1-6 productions, any subset weighted from {0,1/4,1/2,1,2,3}, field types of all forms, unreachable classes) materialised as a real module, extracted 1-3 times; "
            "observed: the whole Grammar (productions, distances, recursive set, get_weights()) after each extraction; non-trivial = some rule has >= 2 productions and some class is weighted; distinct by canonical JSON")
    return chk.finish(proof, TRUSTED, cov, rule)
