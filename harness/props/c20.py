"""C20 — the CSV search log is faithful and is a valid prefix at every interruption point."""
from __future__ import annotations

import json

from harness import core, flow
from harness.core import cn, cN, cq, cbool, clist
from harness.props import search_common as sc

IMPORTS = "From GE Require Import Base Search Csv C18Check SearchCheck CsvCheck."

TRUSTED = [
    "Coq 8.16.1 kernel; vm_compute for generated cases; no native_compute",
    "model: coq/Model/Csv.v (writerow / flush / register), hand-written from evaluation/recorder.py and the extra-field wrapping of geml/simplegp.py",
    "PARTIAL: that bytes flushed to the OS survive a kill of the process is the operating system's contract; what is proved is that between two registrations nothing is left in the writer's buffer and the file is header + complete rows; the state inside a single register() call (between writerow and flush) is not observable to the model",
    "csv.writer quoting and str(float) round-tripping are CPython's (the harness parses the file with csv.reader and float())",
    "the 'Execution Time' column is checked for being a number and non-decreasing, never for its value",
    "correspondence harness: harness/props/c20.py, harness/drivers/csvrec.py (file re-read through an independent handle after construction and after every register)",
]


def c_col(k):
    return {"time": "ColTime", "pheno": "ColPheno"}.get(k[0]) or (f"(ColFit {cn(k[1])})" if k[0] == "fit" else f"(ColExtra {cn(k[1])})" if k[0] == "extra" else "(ColExtra 999%nat)")


def c_cell(x):
    if x[0] == "time":
        return "CTime"
    if x[0] == "pheno":
        return f"(CPheno {cN(x[1])})"
    if x[0] == "fit":
        return f"(CFit {cq(sc.fr(x[1]))})"
    if x[0] == "user":
        return f"(CUser {cn(x[1])} {cN(x[2])})"
    return "CFail"


def c_row(r):
    if "header" in r:
        return f"(RHeader {clist(map(c_col, r['header']))})"
    return f"(RRow {clist(map(c_cell, r['row']))})"


def to_coq(c, o):
    if "exc" in o:
        raise core.HarnessError(f"csv driver raised {o}")
    o = o["ok"]
    cols = ["ColTime", "ColPheno"] + [f"(ColFit {cn(k)})" for k in range(o["nobj"])] + [f"(ColExtra {cn(j)})" for j in (c.get("extras") or [])]
    table = sc.c_table(list(enumerate(c["table"])))
    regs = clist(f"({cN(i)}, {cbool(f)})" for i, f in o["regs"])
    snaps = clist(clist(map(c_row, s)) for s in o["snaps"])
    return f"K20 {table} {clist(cols)} {cbool(c['only_best'])} {regs} {snaps}"


def gen(seed, tier):
    r = flow.rng(seed, "c20")
    big = tier == "thorough"
    cases = []
    for _ in range(400 if big else 120):
        nobj = r.choice([1, 1, 2, 3, 4])
        if nobj == 1 and r.random() < 0.6:
            prob = {"kind": "so", "min": r.random() < 0.5}
        else:
            prob = {"kind": "mo", "min": [r.random() < 0.5 for _ in range(nobj)] if r.random() < 0.8 else (r.random() < 0.5), "agg": None}
        n = r.randrange(1, 7)
        # distinct components per position so that a column showing the wrong component is visible
        table = [[sc.jq(sc.Fraction(10 * i + k) + r.choice([0, sc.Fraction(1, 2), sc.Fraction(1, 4)])) for k in range(nobj)] for i in range(n)]
        via = r.choice(["direct", "simplegp", "tracker"])
        extras = None if r.random() < 0.3 else sorted(r.sample(range(5), r.randrange(0, 4)))
        if via == "simplegp" and extras == []:
            extras = None
        c = {"op": "csv", "table": table, "problem": prob, "only_best": r.random() < 0.5, "extras": extras, "via": via}
        if via == "tracker":
            order = [r.randrange(n) for _ in range(r.randrange(1, 8))]
            c["batches"] = [order[i:i + 2] for i in range(0, len(order), 2)]
        else:
            c["regs"] = [[r.randrange(n), r.random() < 0.5] for _ in range(r.randrange(0, 8))]
        cases.append(c)
    # histories through a tracker whose best fitness passes through zero, repeats and ties (the best-only log must hold the strict
    # improvements and nothing else), both directions
    for _ in range(120 if big else 40):
        n = r.randrange(2, 7)
        table = [[sc.jq(r.choice([sc.Fraction(-2), sc.Fraction(-1), sc.Fraction(0), sc.Fraction(0), sc.Fraction(1), sc.Fraction(5, 2)]))] for _ in range(n)]
        order = [r.randrange(n) for _ in range(r.randrange(2, 9))]
        cases.append({"op": "csv", "table": table, "problem": {"kind": "so", "min": r.random() < 0.5}, "only_best": r.random() < 0.7, "extras": None, "via": "tracker",
                      "batches": [order[i:i + 2] for i in range(0, len(order), 2)]})
    return cases


def describe(c, o):
    return f"{json.dumps(c)} -> file snapshots {json.dumps(o)[:700]}"


def nontrivial(c, o):
    return "ok" in o and len(o["ok"]["regs"]) >= 2 and len(o["ok"]["snaps"][-1]) >= 2


def run(tier, seed, replay=None):
    chk = core.Check("C20", tier, seed)
    proof = core.proof_step("C20", thorough=(tier == "thorough"))
    cases = [replay["replay"]["case"]] if replay else gen(seed, tier)
    outs, corr, orac = flow.differential(chk, "csvrec", cases, to_coq, IMPORTS, run_fn="run_c20", describe=describe,
                                          component="CSV recorder", kind=lambda c: c["via"] + str(c["only_best"]))
    if outs:
        for c, o in zip(cases, outs):
            times = [float(x["time"]) for x in o["ok"]["snaps"][-1][1:] if x.get("time") not in (None, "")] if "ok" in o else []
            if any(b < a for a, b in zip(times, times[1:])):
                chk.violation("oracle", f"[CSV recorder] Execution Time column decreases: {times}", {"component": "CSV recorder", "driver": "csvrec", "case": c, "observed": times}, True)
                break
    if outs:
        # the improvement flags a single-objective tracker hands to the recorder, against the fitness table alone
        fl = [(c, o) for c, o in zip(cases, outs) if c["via"] == "tracker" and c["problem"]["kind"] == "so" and "ok" in o]
        if fl:
            terms = [f"K20F {sc.c_table(list(enumerate(c['table'])))} {cbool(c['problem']['min'])} " + clist(f"({cN(i)}, {cbool(f)})" for i, f in o["ok"]["regs"]) for c, o in fl]
            _, badf = core.run_cases("C20", IMPORTS, terms, run_fn="run_c20f", chunk=200)
            for j in badf[:2]:
                c, o = fl[j]
                chk.violation("oracle", "[CSV recorder behind a tracker] the individuals flagged as new best are not exactly the first one and the strict improvements, so the best-only log "
                              f"holds other rows: fitness table {c['table']} minimise={c['problem']['min']} registrations (individual, flagged) {o['ok']['regs']}",
                              {"component": "improvement flags", "driver": "csvrec", "case": c, "observed": o["ok"]["regs"]}, True)
    if replay and outs:
        print("replayed:", describe(cases[0], outs[0]))
        print("correspondence", "FAILS" if corr else "ok", "| contract", "FAILS" if orac else "holds")
    if outs:
        chk.samples = [{"case": c, "observed": o} for c, o in list(zip(cases, outs))[:: max(1, len(cases) // 4)]][:4]
    cov = {
        "evaluations": len(cases),
        "distinct_nontrivial": flow.distinct_nontrivial(cases, outs or [], nontrivial) if outs else 0,
        "traces_validated_against_impl": len(cases),
        "file_snapshots_compared": sum(len(o["ok"]["snaps"]) for o in (outs or []) if "ok" in o),
        "correspondence_mismatches": len(corr), "oracle_failures": len(orac),
        "input_distribution": {"objectives": {str(k): sum(1 for c in cases if len(c["table"][0]) == k) for k in (1, 2, 3, 4)},
                               "via": {v: sum(1 for c in cases if c["via"] == v) for v in ("direct", "simplegp", "tracker")},
                               "only_best": sum(1 for c in cases if c["only_best"]), "with_extra_fields": sum(1 for c in cases if c.get("extras"))},
        "exhaustive": False,
    }
    rule = ("case = 1-4 objectives x default fields + 0-3 extra fields x recording mode x construction route (CSVSearchRecorder directly, SimpleGP.build_recorder, through a tracker) x a history of registrations; "
            "observed: the parsed file on disk after construction and after every register(); non-trivial = >= 2 registrations and >= 1 data row; distinct by canonical JSON")
    return chk.finish(proof, TRUSTED, cov, rule)
