"""Shared encoders for the grammar-level properties (C05, C19, C08)."""
from __future__ import annotations

from fractions import Fraction

from harness import core, grammars
from harness.core import cz, cq, clist, cerr

IMPORTS = "From GE Require Import Base Grammar C18Check GrammarCheck."


def c_gobs(o):
    sy = grammars.c_sym
    return ("(mkGO " + clist(map(sy, o["nodes"])) + " " + clist(f"({sy(k)}, {clist(map(sy, vs))})" for k, vs in o["alts"]) + " "
            + clist(map(sy, o["terminals"])) + " " + clist(map(sy, o["nonterminals"])) + " "
            + clist(f"({sy(k)}, {cz(v)})" for k, v in o["dist"]) + " " + clist(map(sy, o["rec"])) + " "
            + clist(f"({sy(k)}, {cq(Fraction(v[0], v[1]))})" for k, v in o["weights"]) + " " + cz(o["min_depth"]) + ")")


def c_pyres_gobs(o):
    if "exc" in o:
        return f"(PErr {cerr(o['exc'])})"
    if any(s[0] == "?" for s in o["ok"]["nodes"]):
        return "(PErr OtherError)"
    return f"(POk {c_gobs(o['ok'])})"
