"""Shared encoders/generators for the representation-level properties (C06, C07, C09, and the variation
parts of C01-C03, C10, C11): sequences of create / map / mutate / crossover on the five representations."""
from __future__ import annotations

import json

from harness import core, grammars
from harness.core import cz, cn, cbool, clist, cerr, copt
from harness.props import synth_common as sy

IMPORTS = "From GE Require Import Base Tape Grammar WellTyped Synth Linear C18Check GrammarCheck SynthCheck RepCheck."


def c_rkind(rep, info):
    k = rep["kind"]
    if k == "tree":
        return f"(RTree {sy.c_dkind(rep['decider'])})"
    if k == "ge":
        return f"(RGE {sy.c_dkind(rep['decider'])} {cn(rep['gene_length'])})"
    if k == "sge":
        return f"(RSGE {sy.c_dkind(rep['decider'])} {cn(rep['gene_length'])} {cn(info.get('sge_keys') or 0)} {cn(info.get('sge_infra') or 0)})"
    if k == "dsge":
        return f"(RDsge {cz(rep['max_depth'])})"
    if k == "stack":
        return f"(RStack {cn(rep['gene_length'])})"
    raise ValueError(k)


def c_tkey(k):
    if k[0] == "c":
        return f"(TSym {cn(k[1])})"
    if k[0] == "b":
        return f"(TBase {grammars.c_base(k[1])})"
    if k[0] == "u":
        return "(TUnion " + clist(c_tkey(x) for x in k[1]) + ")"
    if k[0] == "l":
        return f"(TList {c_tkey(k[1])})"
    if k[0] == "t":
        return "(TTuple " + clist(c_tkey(x) for x in k[1]) + ")"
    return "(TTuple [])"     # a key the model has no name for (never equal to a modelled key)


def c_geno(g):
    k = g[0]
    if k == "tree":
        return f"(GTree {grammars.c_value(g[1])})"
    if k == "codons":
        return f"(GCodons {clist(map(cz, g[1]))})"
    if k == "keyed":
        return "(GKeyed " + clist(f"({cn(max(i, 0))}, {clist(map(cz, v))})" for i, v in g[1]) + ")"
    if k == "dsge":
        return "(GDsge " + clist(f"({c_tkey(kk)}, {clist(map(cz, v))})" for kk, v in g[1]) + ")"
    raise ValueError(k)


def c_rout(op, r):
    if "exc" in r:
        return f"(PErr {cerr(r['exc'])})"
    o = r["ok"]
    if op[0] in ("create", "mutate"):
        return f"(POk (OGeno {c_geno(o['geno'])}))"
    if op[0] == "cross":
        return f"(POk (OGenos {c_geno(o['genos'][0])} {c_geno(o['genos'][1])}))"
    if op[0] == "map":
        return f"(POk (OPheno {grammars.c_value(o['pheno'])} {c_geno(o['geno_after'])}))"
    raise ValueError(op)


def expand(cases, outs):
    """one Coq case per observed operation (draw operations only advance the shared source)"""
    ecs, eos = [], []
    for c, o in zip(cases, outs):
        oo = o.get("ok", o)
        if oo.get("phase") != "ops":
            ecs.append({"op": "construct", "decl": c["decl"], "rep": c["rep"], "seed": c.get("seed")})
            eos.append({"construct": oo})
            continue
        for i, rec in enumerate(oo["ops"]):
            if rec["op"][0] == "draw":
                continue
            ecs.append({"op": rec["op"][0], "decl": c["decl"], "rep": c["rep"], "seed": c.get("seed"), "index": i, "ops": c["ops"]})
            eos.append({"rec": rec, "info": {"sge_keys": oo.get("sge_keys"), "sge_infra": oo.get("sge_infra")}})
    return ecs, eos


def to_coq(c, o):
    if "construct" in o:
        # the representation / decider could not even be constructed: compare with the model's validate
        res = o["construct"].get("res", {})
        return (f"KRep {grammars.c_decl(c['decl'])} {c_rkind(c['rep'], {})} RCreate [] "
                f"(mkRO (PErr {cerr(res.get('exc', 'OtherError'))}) None [] [] [] [] true)")
    rec = o["rec"]
    op = rec["op"]
    ins = rec["inputs"]
    ropc = {"create": lambda: "RCreate", "map": lambda: f"(RMap {c_geno(ins[0])})", "mutate": lambda: f"(RMutate {c_geno(ins[0])})",
            "cross": lambda: f"(RCross {c_geno(ins[0])} {c_geno(ins[1])})"}[op[0]]() if (ins or op[0] == "create") else "RCreate"
    exp = rec.get("expanding_before")
    ictx = clist(f"({cz(a)}, {cz(b)})" for a, b in rec.get("in_ctx", []))
    robs = (f"(mkRO {c_rout(op, rec['res'])} {copt(exp if isinstance(exp, bool) else None, cbool)} {ictx} {clist(map(cn, rec['changed']))} "
            f"{sy.c_altsobs(rec['alts_before'])} {sy.c_altsobs(rec['alts_after'])} {cbool(rec.get('grammar_same', True))})")
    return f"KRep {grammars.c_decl(c['decl'])} {c_rkind(c['rep'], o['info'])} {ropc} {sy.c_draws(rec['consumed'])} {robs}"


def describe(c, o):
    if "construct" in o:
        return f"representation {c['rep']} could not be constructed: {json.dumps(o['construct'])[:300]}; classes:\n" + grammars.source(c["decl"])[len(grammars.HEADER):]
    rec = o["rec"]
    return ("classes:\n" + grammars.source(c["decl"])[len(grammars.HEADER):] + f"start=C{c['decl']['start']} representation={c['rep']} shared seed={c.get('seed')} operation #{c.get('index')} {rec['op']} of {c.get('ops')} "
            f"inputs={json.dumps(rec['inputs'])[:500]} -> {json.dumps(rec['res'])[:600]} ; drew {len(rec['consumed'])} answers from the shared source; earlier genotypes changed: {rec['changed']} (extended: {rec['extended']}); "
            f"productions before={rec['alts_before']} after={rec['alts_after']}" + (f" ; grammar attributes changed: {json.dumps(rec['grammar_diff'])[:600]}" if rec.get("grammar_diff") else ""))


# ------------------------------------------------------------------ generators
S = lambda i: ["sym", i]  # noqa: E731
INT, BOOL = ["base", "int"], ["base", "bool"]
A = lambda parent=None, deco=False: {"parent": parent, "abs": "deco" if deco else "abc", "fields": [], "weight": None}  # noqa: E731
P = lambda parent, *fields: {"parent": parent, "abs": None, "fields": list(fields), "weight": None}  # noqa: E731
H = lambda classes, start=0, xdepth=False: {"classes": classes, "considered": list(range(len(classes))), "start": start, "xdepth": xdepth}  # noqa: E731


def decl_family():
    return [
        H([A(), P(0, INT), P(0, S(0), ["list", S(0)])]),
        H([A(), P(0, BOOL), P(0, S(0), S(0)), A(0, True), P(3, ["ann", INT, ["intrange", 0, 5]])]),
        H([A(), P(0, ["ann", INT, ["intrange", -2, 2]], ["ann", ["list", BOOL], ["listsize", 0, 2, True]]), P(0, S(0))]),
        # concrete, recursive start symbol: tree crossover finds donor material
        H([A(), P(0, INT), P(0, S(0), S(0)), P(0, S(2), S(0))], start=2),
        H([A(), P(0), P(0, ["union", [S(0), INT]], ["tuple", [BOOL, INT]])]),
    ]


def rep_specs(r, max_depth=None):
    D = max_depth or r.randrange(2, 5)
    dec = [r.choice(["max", "pi", "full"]), D]
    return [{"kind": "tree", "decider": dec}, {"kind": "ge", "decider": dec, "gene_length": r.choice([1, 2, 7, 30])},
            {"kind": "sge", "decider": dec, "gene_length": r.choice([1, 3, 16])}, {"kind": "dsge", "max_depth": D},
            {"kind": "stack", "gene_length": r.choice([300, 400])}]


def union_of_refined(d):
    def walk(t, in_union):
        if t[0] == "ann":
            return in_union or walk(t[1], in_union)
        if t[0] == "union":
            return any(walk(x, True) for x in t[1])
        if t[0] == "list":
            return walk(t[1], in_union)
        if t[0] == "tuple":
            return any(walk(x, in_union) for x in t[1])
        return False
    return any(walk(t, False) for c in d["classes"] for t in c["fields"])


def gen_ops(r, n):
    """a sequence of operations over a growing registry of genotypes"""
    ops, size = [["create"], ["create"]], 2
    for _ in range(n):
        k = r.choice(["create", "map", "map", "mutate", "mutate", "cross", "cross", "draw"])
        if k == "create":
            ops.append(["create"]); size += 1
        elif k == "map":
            i = r.randrange(size)
            ops.append(["map", i])
            if r.random() < 0.6:
                if r.random() < 0.5:
                    ops.append(["draw", 0, 1000])
                ops.append(["map", i])           # map the same genotype again, other draws in between
        elif k == "mutate":
            ops.append(["mutate", r.randrange(size)]); size += 1
        elif k == "cross":
            ops.append(["cross", r.randrange(size), r.randrange(size)]); size += 2
        else:
            ops.append(["draw", 0, 1000])
    return ops


def breeding_ops(n):
    """create two, then keep crossing the latest offspring with each other and with the founders, mutating and mapping in between"""
    ops, size = [["create"], ["create"]], 2
    last = [0, 1]
    for i in range(n):
        ops.append(["cross", last[0], last[1]])
        a, b = size, size + 1
        size += 2
        ops.append(["map", a])
        if i % 2 == 0:
            ops.append(["mutate", a]); size += 1
        last = [a, b] if i % 3 else [a, 0]
    return ops


def gen_cases(r, tier, n_random=8):
    big = tier == "thorough"
    cases = []
    fam = decl_family()
    for d in fam:
        for rep in rep_specs(r):
            for _ in range(2 if not big else 6):
                cases.append({"op": "rep", "decl": d, "rep": rep, "seed": r.randrange(10**6), "ops": gen_ops(r, 7 if not big else 14)})
    # boundary answers of the shared source: every draw returns the lowest / highest value of the range it was asked for
    for d in fam[:2]:
        for rep in ({"kind": "ge", "decider": ["max", 3], "gene_length": 1}, {"kind": "ge", "decider": ["max", 3], "gene_length": 3},
                    {"kind": "sge", "decider": ["max", 3], "gene_length": 2}, {"kind": "dsge", "max_depth": 3}):
            # (not the stack representation: its mapping loop does not terminate on a genotype of identical codons)
            for pol in ("min", "max", "alt"):
                cases.append({"op": "rep", "decl": d, "rep": rep, "seed": 0, "shared": pol,
                              "ops": [["create"], ["create"], ["mutate", 0], ["mutate", 2], ["cross", 0, 1], ["mutate", 3], ["map", 0], ["map", 0], ["cross", 2, 4], ["mutate", 5]]})
    # several generations of tree crossover on a grammar whose concrete start symbol recurs inside programs
    breed = [fam[3], H([A(), P(0, INT), P(0, S(0), S(0)), P(0, S(1), S(2), S(0))], start=2)]
    for d in breed:
        for dec in (["max", 4], ["pi", 5], ["full", 3]):
            for _ in range(2 if not big else 6):
                cases.append({"op": "rep", "decl": d, "rep": {"kind": "tree", "decider": dec}, "seed": r.randrange(10**6), "ops": breeding_ops(6 if not big else 12)})
    # lineages: map a genotype, mutate it, map the offspring (which may need more genes than its parent had), and so on
    for d in (fam[0], fam[3], fam[1]):
        for rep in ({"kind": "dsge", "max_depth": 4}, {"kind": "dsge", "max_depth": 6}, {"kind": "sge", "decider": ["max", 4], "gene_length": 5}):
            for _ in range(2 if not big else 6):
                ops = [["create"], ["map", 0]]
                for i in range(8):
                    ops += [["mutate", i], ["map", i + 1], ["map", i]]
                cases.append({"op": "rep", "decl": d, "rep": rep, "seed": r.randrange(10**6), "ops": ops})
    # families: founders are mapped (dSGE extends them on demand), crossed, and every offspring - which may have inherited an
    # empty or short gene list for a symbol only the other parent used - is mapped twice with unrelated draws in between
    kin = [H([A(), P(0, INT), P(0, BOOL), P(0, S(0), S(0)), P(0, BOOL, S(0))]), fam[1], fam[0]]
    for d in kin:
        for rep in ({"kind": "dsge", "max_depth": 3}, {"kind": "dsge", "max_depth": 5}, {"kind": "sge", "decider": ["max", 4], "gene_length": 4},
                    {"kind": "ge", "decider": ["max", 4], "gene_length": 6}):
            for _ in range(2 if not big else 6):
                ops = [["create"], ["create"], ["create"], ["map", 0], ["map", 1], ["map", 2]]
                size, pool = 3, [0, 1, 2]
                for i in range(5 if not big else 9):
                    a, b = r.sample(pool, 2)
                    ops.append(["cross", a, b])
                    c1, c2 = size, size + 1
                    size += 2
                    ops += [["map", c1], ["draw", 0, 1000], ["map", c1], ["map", c2], ["map", c2]]
                    pool += [c1, c2]
                cases.append({"op": "rep", "decl": d, "rep": rep, "seed": r.randrange(10**6), "ops": ops})
    # offspring that inherited an empty gene list (a symbol only the other parent used) are mutated, several times each, before and
    # after being mapped: a mutation that lands on the empty list must leave the genotype as it is
    for d in kin:
        for rep in ({"kind": "dsge", "max_depth": 3}, {"kind": "dsge", "max_depth": 5}):
            for _ in range(2 if not big else 6):
                ops = [["create"], ["create"], ["create"], ["map", 0], ["map", 1], ["map", 2]]
                size = 3
                for a, b in ((0, 1), (1, 2), (0, 2)):
                    ops.append(["cross", a, b])
                    c1, c2 = size, size + 1
                    size += 2
                    for c in (c1, c2):
                        ops += [["mutate", c], ["mutate", c], ["mutate", c]]
                        size += 3
                    ops += [["map", c1], ["mutate", c1], ["mutate", c1]]
                    size += 2
                cases.append({"op": "rep", "decl": d, "rep": rep, "seed": r.randrange(10**6), "ops": ops})
    # short stack genotypes (the crossover cut is drawn from 0..255 whatever the length): creation, mutation and crossover only, since the
    # stack mapping need not terminate on so few codons
    for gl in (1, 2, 5, 16, 100, 255, 256):
        for _ in range(2 if not big else 5):
            ops, size = [["create"], ["create"], ["create"]], 3
            for _i in range(8 if gl > 16 else 14):
                if r.random() < 0.25:
                    ops.append(["mutate", r.randrange(size)]); size += 1
                else:
                    ops.append(["cross", r.randrange(size), r.randrange(size)]); size += 2
            cases.append({"op": "rep", "decl": fam[0], "rep": {"kind": "stack", "gene_length": gl}, "seed": r.randrange(10**6), "ops": ops})
    # the genotype a representation object maps FIRST is mapped again later (decider state must not carry over between mappings);
    # concrete start symbol, so that the first production choice is not made at the root
    for rep in ({"kind": "ge", "decider": ["pi", 4], "gene_length": 8}, {"kind": "sge", "decider": ["pi", 4], "gene_length": 4},
                {"kind": "ge", "decider": ["full", 3], "gene_length": 8}, {"kind": "dsge", "max_depth": 4}):
        for d in (fam[3], H([A(), P(0, INT), P(0, S(0), S(0)), P(0, S(1), S(2), S(0))], start=3)):
            for _ in range(2 if not big else 4):
                cases.append({"op": "rep", "decl": d, "rep": rep, "seed": r.randrange(10**6),
                              "ops": [["create"], ["create"], ["map", 0], ["map", 1], ["map", 0], ["draw", 0, 1000], ["map", 1], ["map", 0]]})
    for _ in range(n_random if not big else 5 * n_random):
        d = grammars.gen_decl(r, {"weights": False, "tuples": True, "dependent": False})
        for rep in r.sample(rep_specs(r), 2):
            if rep["kind"] == "dsge" and union_of_refined(d):
                # dSGE keys its genes by the Union type object; with refined members under string annotations that object is rebuilt
                # (and compares unequal) at every evaluation of the annotations, so every mapping adds a new key: outside the model
                # (see DESIGN section 5, observed next to F15)
                continue
            cases.append({"op": "rep", "decl": d, "rep": rep, "seed": r.randrange(10**6), "ops": gen_ops(r, 6)})
    return cases


def stack_plain(d):
    js = json.dumps(d)
    return '"ann"' not in js and '"str"' not in js


def gen_stack_cases(r, tier):
    """mappings of the stack representation on hierarchies its model covers (no metahandler annotation, no string field): lists,
    tuples, unions, a standalone class used as a field type, weighted productions, an abstract and
    a concrete start symbol, genotypes too short to finish"""
    big = tier == "thorough"
    FLOAT = ["base", "float"]
    W = lambda c, w: dict(c, weight=w)  # noqa: E731
    fam = [
        H([A(), P(0, INT), P(0, S(0), ["list", S(0)])]),
        H([A(), P(0, BOOL), P(0, S(0), S(0))]),
        H([A(), P(0, INT), P(0, S(0), S(0)), P(0, S(2), S(0))], start=2),
        H([A(), P(0), P(0, ["union", [S(0), INT]], ["tuple", [BOOL, INT]])]),
        H([A(), P(0, FLOAT), P(0, ["tuple", [S(0), S(0)]]), P(0, ["list", INT], BOOL)]),
        H([A(), W(P(0, INT), [2, 1]), W(P(0, S(0), S(0)), [1, 1]), A(0, True), P(3, BOOL)]),   # normalised weights 1/2, 1/4, 1/4: exact as floats
        H([A(), P(None, INT, BOOL), P(0, S(1)), P(0, S(1), S(0))]),           # a standalone class as a field type
        H([A(), P(0, ["union", [INT, BOOL, S(0)]]), P(0, ["list", ["tuple", [INT, S(0)]]]), P(0)]),
        H([A(), A(0, True), P(1, INT), P(1, S(0), S(1)), P(0, ["list", S(1)])]),
        # concrete classes that mention themselves through a list / a union / each other (F47)
        H([A(), P(0, INT), P(0, ["list", S(2)])]),
        H([A(), P(0, BOOL), P(0, ["union", [S(2), INT]], S(3)), P(0, ["tuple", [S(2), BOOL]])], start=1),
    ]
    cases = []
    for d in fam:
        for gl in ((300, 40, 13) if not big else (300, 400, 40, 13, 7, 3)):
            for _ in range(1 if not big else 3):
                ops = [["create"]] * 4 + [["map", 0], ["map", 1], ["map", 2], ["map", 3], ["mutate", 0], ["map", 4], ["cross", 1, 2], ["map", 5], ["map", 6], ["map", 0]]
                cases.append({"op": "rep", "decl": d, "rep": {"kind": "stack", "gene_length": gl}, "seed": r.randrange(10**6), "ops": ops})
    n = 0
    while n < (10 if not big else 40):
        d = grammars.gen_decl(r, {"weights": False, "tuples": True, "dependent": False})
        # (no weights on the generated hierarchies: normalised weights such as 1/3 are rounded as floats and their running sums
        # truncate differently from the model's exact rationals - outside the model, DESIGN section 8, floats)
        if not stack_plain(d):
            continue
        n += 1
        cases.append({"op": "rep", "decl": d, "rep": {"kind": "stack", "gene_length": r.choice([300, 60])}, "seed": r.randrange(10**6),
                      "ops": [["create"]] * 3 + [["map", 0], ["map", 1], ["map", 2], ["map", 0]]})
    return cases


def variation_family():
    """hierarchies for the representation-level parts of C01 / C10: same-typed fields that are not adjacent,
    a float field, an abstract symbol that is mentioned but has no production among the supplied classes"""
    FLOAT = ["base", "float"]
    return [
        H([A(), P(0, INT), P(0, INT, S(0), INT), P(0, S(0), BOOL, S(0))]),
        # concrete start symbols: the stack machine stops at the first program of the start symbol, so only a concrete
        # start symbol makes it build anything but the shallowest production
        H([A(), P(0, INT), P(0, INT, S(0), INT), P(0, S(0), BOOL, S(0))], start=2),
        H([A(), P(0, BOOL), P(0, S(0), S(0)), P(0, BOOL, S(1), INT, S(2), BOOL)], start=3),
        H([A(), P(0, FLOAT), P(0, INT, S(0)), P(0, S(0), S(3), S(0)), A(), P(4, BOOL), P(4, INT, S(4), INT)]),
        # refined fields (C02 after variation and mapping): ranges, sized lists of refined elements, a dependent range
        H([A(), P(0, ["ann", INT, ["intrange", -2, 2]], ["ann", ["list", ["ann", INT, ["intrange", 7, 9]]], ["listsize", 1, 2, True]]), P(0, S(0), ["ann", INT, ["intlist", [4, 6]]])]),
        # (no Dependent(...) here: SGE names its genes by str(annotation), which for a lambda contains an address and differs
        #  from one evaluation of the string annotations to the next - see DESIGN section 5, observed outside the properties)
        H([A(), P(0, ["ann", INT, ["intrange", 0, 3]], ["ann", INT, ["intlist", [5, 8]]]), P(0, S(0), S(0)), P(0, ["ann", INT, ["intrange", 1, 1]], S(1))], start=3),
        H([A(), P(0), P(0, ["union", [S(0), INT]], ["tuple", [BOOL, INT]])]),                            # union and tuple fields
        dict(H([A(), P(0, INT), P(0, S(3), S(0), S(0)), A(), P(3, BOOL)]), considered=[0, 1, 2, 3]),     # C3 is mentioned, its only subclass C4 is not supplied
        dict(H([A(), P(0, BOOL), P(0, S(0), S(3)), A(None, True), P(3, INT)]), considered=[0, 1, 2, 3]),
    ]


def gen_variation_cases(r, tier):
    big = tier == "thorough"
    cases = []
    for d in variation_family() + decl_family()[:2]:
        for rep in rep_specs(r, max_depth=r.randrange(3, 6)):
            for _ in range(2 if not big else 6):
                cases.append({"op": "rep", "decl": d, "rep": rep, "seed": r.randrange(10**6), "ops": gen_ops(r, 8 if not big else 14)})
    breed = H([A(), P(0, INT), P(0, S(0), S(0)), P(0, INT, S(2), INT)], start=2)
    for dec in (["max", 4], ["pi", 5]):
        cases.append({"op": "rep", "decl": breed, "rep": {"kind": "tree", "decider": dec}, "seed": r.randrange(10**6), "ops": breeding_ops(6 if not big else 12)})
    # lineages under dynamic SGE on hierarchies with plain base-type fields: its own mutation writes codons far above the range
    # fresh genotypes use, and every offspring is mapped
    FLOAT = ["base", "float"]
    for d in (H([A(), P(0, FLOAT), P(0, INT, S(0)), P(0, S(0), BOOL, FLOAT)]), variation_family()[3]):
        for D in (3, 5):
            for _ in range(2 if not big else 5):
                ops = [["create"], ["map", 0]]
                for i in range(10):
                    ops += [["mutate", i], ["map", i + 1]]
                cases.append({"op": "rep", "decl": d, "rep": {"kind": "dsge", "max_depth": D}, "seed": r.randrange(10**6), "ops": ops})
    # a Union whose list alternative is deeper than its other alternative, at every limit from the minimum upwards
    deep_union = H([A(), P(0, INT), P(None, S(1), S(1)), P(0, ["union", [["list", S(2)], S(1)]])])
    for D in (2, 3, 4):
        for rep in ({"kind": "dsge", "max_depth": D}, {"kind": "ge", "decider": ["max", D], "gene_length": 12}, {"kind": "sge", "decider": ["pi", D], "gene_length": 4},
                    {"kind": "tree", "decider": ["full", D]}):
            for _ in range(2 if not big else 5):
                cases.append({"op": "rep", "decl": deep_union, "rep": rep, "seed": r.randrange(10**6), "ops": gen_ops(r, 8)})
    return cases


def map_pairs(cases, outs):
    """pairs of mappings of one genotype within a case: (first result, later result, answers the later one drew)"""
    pairs = []
    for c, o in zip(cases, outs):
        oo = o.get("ok", o)
        if oo.get("phase") != "ops":
            continue
        first = {}
        for rec in oo["ops"]:
            if rec["op"][0] != "map":
                continue
            i = rec["op"][1]
            if i in first:
                pairs.append((c, first[i], rec))
            else:
                first[i] = rec
    return pairs


def c_mappair(a, b):
    def res(r):
        return f"(PErr {cerr(r['exc'])})" if "exc" in r else f"(POk {grammars.c_value(r['ok']['pheno'])})"
    return f"KMapPair {res(a['res'])} {res(b['res'])} {cn(len(b['consumed']))}"
