"""Shared encoders / generators for the search-level properties C12, C13, C14."""
from __future__ import annotations

from fractions import Fraction

from harness import core
from harness.core import cz, cn, cN, cq, cbool, clist, cerr

IMPORTS = "From GE Require Import Base Search C18Check SearchCheck."

VALUES = [Fraction(0), Fraction(1), Fraction(2), Fraction(-1), Fraction(1, 2), Fraction(3, 4), Fraction(5), Fraction(-3, 2), Fraction(7, 8)]


def fr(x):
    return Fraction(x[0], x[1])


def jq(f):
    f = Fraction(f)
    return [f.numerator, f.denominator]


def c_problem(s):
    if s["kind"] == "so":
        return f"(SO {cbool(s['min'])})"
    m = s["min"]
    ms = f"(MinList {clist(map(cbool, m))})" if isinstance(m, list) else f"(MinBool {cbool(m)})"
    ag = "AggDefault" if s.get("agg") is None else f"(AggWeights {clist(cq(fr(w)) for w in s['agg'])})"
    return f"(MO {ms} {ag})"


def c_table(table_pairs):
    """table_pairs: list of (id, comps as [num,den] lists)"""
    return clist(f"({cN(i)}, {clist(cq(fr(c)) for c in comps)})" for i, comps in table_pairs)


def c_budget(b):
    if "eval" in b:
        return f"(EvalBudget {cz(b['eval'])})"
    if "target" in b:
        return f"(TargetFit {cq(fr(b['target']))})"
    return f"(AnyOf {c_budget(b['anyof'][0])} {c_budget(b['anyof'][1])})"


def c_pyres(o, f):
    if "exc" in o:
        return f"(PErr {cerr(o['exc'])})"
    return f"(POk {f(o['ok'])})"


def gen_problem(r, nobj=None):
    """returns (spec, number of objectives)"""
    if nobj is None:
        nobj = r.choice([1, 1, 2, 2, 3])
    if nobj == 1 and r.random() < 0.7:
        return {"kind": "so", "min": r.random() < 0.5}, 1
    m = [r.random() < 0.5 for _ in range(nobj)] if r.random() < 0.6 else (r.random() < 0.5)
    agg = None
    if r.random() < 0.3:
        agg = [jq(r.choice([Fraction(1), Fraction(-1), Fraction(1, 2), Fraction(2), Fraction(0)])) for _ in range(nobj)]
    return {"kind": "mo", "min": m, "agg": agg}, nobj


def gen_table(r, n, nobj, values=VALUES):
    return [[jq(r.choice(values)) for _ in range(nobj)] for _ in range(n)]


def search_case_to_coq(c, o):
    """K14 term from a c14 case and its observation"""
    if "driver_exc" in o:
        raise core.HarnessError(f"search driver failed outside the guarded call: {o}")
    table = c_table([(i, comps) for i, comps in o["table"]])
    a = c["algo"]
    if a == "rs":
        algo = "ARS"
    elif a == "opo":
        algo = "AOPO"
    elif a == "hc":
        algo = f"(AHC {cn(c['m'])})"
    else:
        gens = o["gens"]
        init = gens[0] if gens else []
        algo = f"(AGP {cn(c['pop'])} {clist(map(cN, init))} {clist(clist(map(cN, g)) for g in gens[1:])})"
    if "exc" in o:
        obs = f"(PErr {cerr(o['exc'])})"
    else:
        checks = clist(f"({cz(c_)}, {'None' if b0 is None else '(Some ' + cq(fr(b0)) + ')'}, {cbool(d)})" for c_, b0, d in o["checks"])
        ret = "None" if o["ret"] is None else f"(Some {cN(o['ret'])})" if o["ret"] >= 0 else "(Some 99999%N)"
        obs = f"(POk ({checks}, {ret}, {cz(o['total'])}))"
    return f"K14 {table} {c_problem(c['problem'])} {cbool(c['mo'])} {cbool(bool(c.get('par')))} {algo} {c_budget(c['budget'])} {obs}"
