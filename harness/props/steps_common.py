"""Shared encoders / generators for the step-level properties C15, C16, C17."""
from __future__ import annotations

from fractions import Fraction

from harness import core
from harness.core import cz, cn, cN, cq, cbool, clist, cerr
from harness.props import search_common as sc

IMPORTS = "From GE Require Import Base Tape Search Steps C18Check SearchCheck StepsCheck."


def c_step(s):
    k = s[0]
    if k == "elitism":
        return "SElitism"
    if k == "novelty":
        return "SNovelty"
    if k == "tournament":
        return f"(STournament {cz(s[1])} {cbool(s[2])})"
    if k == "lexicase":
        return f"(SLexicase {cbool(s[1])})"
    if k == "mutation":
        return "SMutation"
    if k == "crossover":
        return "SCrossover"
    if k == "identity":
        return "SIdentity"
    if k == "seq":
        return f"(SSeq {clist(map(c_step, s[1]))})"
    ws = s[2] if s[2] else [[1, 1] for _ in s[1]]   # `weights or [1 for _ in steps]`
    tag = "SPar" if k == "par" else "SExcl"
    return f"({tag} {clist(map(c_step, s[1]))} {clist(cq(sc.fr(w)) for w in ws)})"


def c_init(i):
    k = i[0]
    if k == "inject":
        return f"(IInject {cz(i[1])} {c_init(i[2])})"
    return {"standard": "IStandard", "full": "IFull", "grow": "IGrow", "pigrow": "IPIGrow", "ramped": "IRamped"}[k]


def c_src(c):
    if "tape" in c:
        return "(Native " + clist(f"DI {cz(d[1])}" for d in c["tape"]) + ")"
    return f"(LW KGE {clist(map(cz, c['dna']))} 0%nat)"


def uses_lexicase(s):
    if s[0] == "lexicase":
        return True
    if s[0] in ("seq", "par", "excl"):
        return any(uses_lexicase(x) for x in s[1])
    return False


def flatten_enum(cases, outs):
    """expand enumerated cases into one (case, out) pair per decision sequence"""
    fc, fo, complete = [], [], True
    for c, o in zip(cases, outs):
        if c["op"] == "enum":
            if "driver_exc" in o:
                raise core.HarnessError(f"enumeration failed: {o}")
            complete = complete and o["complete"]
            for r in o["results"]:
                fc.append(dict(c["inner"], tape=[["i", v] for v in r["tape"]]))
                fo.append(r["out"])
        else:
            fc.append(c)
            fo.append(o)
    return fc, fo, complete
