"""Shared encoders and generators for the synthesis-level properties (C01, C02, C03, C10, ...)."""
from __future__ import annotations

import json

from harness import core, grammars
from harness.core import cz, cn, cq, cbool, clist, cerr, copt
from harness.props.c18 import c_src as c18_src

IMPORTS = "From GE Require Import Base Tape Grammar WellTyped Synth C18Check GrammarCheck SynthCheck."


CUT = []      # cases cut by the harness (see to_coq)


def c_dkind(spec):
    k = spec[0]
    return {"max": lambda: f"(DMax {cz(spec[1])})", "full": lambda: f"(DFull {cz(spec[1])})", "pi": lambda: f"(DPI {cz(spec[1])})",
            "prog": lambda: "DProg", "dsge": lambda: f"(DDsge {cz(spec[1])})"}[k]()


def c_draws(tape):
    return clist(f"DI {cz(d[1])}" if d[0] == "i" else f"DF {cq(core.Fraction(d[1][0], d[1][1]))}" for d in tape)


def c_src_of(c, o):
    s = c["src"]
    if s["k"] in ("record", "extreme"):
        tape = (o.get("src") or {}).get("tape", [])
        return f"(Native {c_draws(tape)})"
    return c18_src(s)


def c_srcobs(o):
    s = o.get("src")
    if s is None:
        return "(ONative [])"
    if s["k"] == "native":
        return f"(ONative {c_draws(s['rest'])})"
    return f"(OLW {cn(s['idx'])})"


def c_altsobs(a):
    return clist(f"({cn(k)}, {clist(map(cn, vs))})" for k, vs in a if k >= 0 and all(v >= 0 for v in vs))


def c_res(r):
    if "exc" in r:
        return f"(PErr {cerr(r['exc'])})"
    return f"(POk {grammars.c_value(r['ok'])})"


def c_sobs(o):
    ph = {"extract": "PhExtract", "validate": "PhValidate", "create": "PhCreate"}[o["phase"]]
    exp = o.get("expanding")
    return (f"(mkSO {ph} {c_res(o['res'])} {c_srcobs(o)} {c_altsobs(o.get('alts_before', []))} {c_altsobs(o.get('alts_after', []))} "
            f"{copt(exp if isinstance(exp, bool) else None, cbool)})")


def to_coq(c, o):
    if "exc" in o:
        # the driver call itself did not return (e.g. non-termination): an observable
        exc = o["exc"]
        if exc == "Timeout" and c["src"].get("k") == "extreme" and c["src"].get("policy") in ("max", "alt"):
            # a scripted source that always answers with the highest value asks for the largest program of the grammar
            # (10 elements per list, per level): not finishing within the per-call limit is an artefact of the script,
            # recorded like a tape that ended (no verdict for this case); the recorded-stream sources keep the time limit
            CUT.append(c)
            exc = "BadTape"
        o = {"phase": "create", "res": {"exc": exc}}
    else:
        o = o["ok"]
    start = "None" if c.get("start") is None else f"(Some {grammars.c_ty(c['start'])})"
    return f"KSynth {grammars.c_decl(c['decl'])} {c_dkind(c['decider'])} {c_src_of(c, o)} {start} {c_sobs(o)}"


def describe(c, o):
    oo = o.get("ok", o)
    return ("classes:\n" + grammars.source(c["decl"])[len(grammars.HEADER):] + f"considered={c['decl']['considered']} start=C{c['decl']['start']} expansion_depthing={c['decl']['xdepth']} "
            f"decider={c['decider']} source={json.dumps(c['src'])[:200]} start_type={c.get('start')} -> phase={oo.get('phase')} result={json.dumps(oo.get('res'))[:500]} "
            f"alternatives before={oo.get('alts_before')} after={oo.get('alts_after')} tape={json.dumps((oo.get('src') or {}).get('tape'))[:300]}")


# ------------------------------------------------------------------ generators
def gen_sources(r, n_record=2, extremes=("min", "max", "alt"), ge=1):
    out = [{"k": "record", "seed": r.randrange(10**6)} for _ in range(n_record)]
    out += [{"k": "extreme", "policy": p} for p in extremes]
    for _ in range(ge):
        out.append({"k": r.choice(["ge", "sge"]), "dna": [r.choice([0, 1, 2, 3, 7, 2**31, 2**63 - 1, r.randrange(2**63)]) for _ in range(r.randrange(3, 40))]})
    return out


def gen_deciders(r, depths):
    out = []
    for D in depths:
        out.append([r.choice(["max", "full", "pi"]), D])
    return out


def count_nodes(v):
    if not isinstance(v, list) or not v:
        return 0
    if v[0] == "node":
        return 1 + sum(count_nodes(x) for x in v[2])
    if v[0] in ("list", "tuple"):
        return sum(count_nodes(x) for x in v[1])
    return 0
