"""Entry point: ./check <property> [--tier quick|thorough] [--replay file]"""
from __future__ import annotations

import argparse
import importlib
import json
import os
import sys
import traceback

from harness import core


def main():
    ap = argparse.ArgumentParser()
    ap.add_argument("prop")
    ap.add_argument("--tier", default=os.environ.get("VERIF_TIER", "quick"), choices=["quick", "thorough"])
    ap.add_argument("--replay", default=None)
    a = ap.parse_args()
    seed = int(os.environ.get("VERIF_SEED", "20260926"))
    try:
        mod = importlib.import_module(f"harness.props.{a.prop.lower()}")
        core.coq_build(clean=False)
        replay = json.load(open(a.replay)) if a.replay else None
        rc = mod.run(a.tier, seed, replay=replay)
    except core.HarnessError as e:
        print(f"HARNESS-ERROR property={a.prop}: {e}", file=sys.stderr)
        sys.exit(2)
    except Exception:
        traceback.print_exc()
        print(f"HARNESS-ERROR property={a.prop}: internal error", file=sys.stderr)
        sys.exit(2)
    sys.exit(rc)


if __name__ == "__main__":
    main()
