"""Structural scan of /repo (regenerated on every run): every place where the library iterates over an
address-ordered set of types.  The inventory of sites the C08 theorems / observations cover is committed
in harness/set_sites.json; a site that is not in the inventory breaks the correspondence."""
from __future__ import annotations

import ast
import json
import os

SET_NAMES = {"all_nodes", "terminals", "non_terminals", "recursive_prods", "get_all_symbols", "get_all_mentioned_symbols", "all_sym", "all_stack_types"}


def mentions(node):
    for n in ast.walk(node):
        if isinstance(n, ast.Name) and n.id in SET_NAMES:
            return n.id
        if isinstance(n, ast.Attribute) and n.attr in SET_NAMES:
            return n.attr
    return None


def is_set_expr(e, setvars=()):
    """syntactically a set: set(...) / frozenset(...), a set display or comprehension, a set-algebra expression over
    dict key views / sets, or a local name bound to one of these in the same function"""
    if isinstance(e, (ast.Set, ast.SetComp)):
        return True
    if isinstance(e, ast.Call) and isinstance(e.func, ast.Name) and e.func.id in ("set", "frozenset"):
        return True
    if isinstance(e, ast.Call) and isinstance(e.func, ast.Attribute) and e.func.attr in ("union", "intersection", "difference", "symmetric_difference"):
        return True
    if isinstance(e, ast.BinOp) and isinstance(e.op, (ast.BitAnd, ast.BitOr, ast.BitXor, ast.Sub)):
        def setlike(x):
            return is_set_expr(x, setvars) or (isinstance(x, ast.Call) and isinstance(x.func, ast.Attribute) and x.func.attr in ("keys", "items"))
        return setlike(e.left) or setlike(e.right)
    if isinstance(e, ast.Name) and e.id in setvars:
        return True
    return False


def set_vars(f):
    """names a function binds to a syntactic set expression"""
    out = set()
    for _ in range(2):
        for n in ast.walk(f):
            if isinstance(n, ast.Assign) and is_set_expr(n.value, out):
                for t in n.targets:
                    if isinstance(t, ast.Name):
                        out.add(t.id)
            if isinstance(n, ast.AnnAssign) and n.value is not None and is_set_expr(n.value, out) and isinstance(n.target, ast.Name):
                out.add(n.target.id)
    return out


def scan(repo="/repo"):
    sites = []
    for root, _, files in os.walk(os.path.join(repo, "geneticengine")):
        for fn in sorted(files):
            if not fn.endswith(".py"):
                continue
            path = os.path.join(root, fn)
            rel = os.path.relpath(path, repo)
            try:
                tree = ast.parse(open(path).read())
            except SyntaxError:
                sites.append({"file": rel, "function": "?", "kind": "unparseable", "name": "?"})
                continue
            funcs, svars = {}, {}
            for f in ast.walk(tree):
                if isinstance(f, (ast.FunctionDef, ast.AsyncFunctionDef)):
                    sv = set_vars(f)
                    for n in ast.walk(f):
                        funcs.setdefault(id(n), f.name)
                        svars.setdefault(id(n), sv)
            for n in ast.walk(tree):
                its = []
                if isinstance(n, (ast.For, ast.AsyncFor)):
                    its.append(("for", n.iter))
                elif isinstance(n, (ast.ListComp, ast.SetComp, ast.DictComp, ast.GeneratorExp)):
                    for g in n.generators:
                        its.append(("comprehension", g.iter))
                elif isinstance(n, ast.Call) and isinstance(n.func, ast.Name) and n.func.id in ("list", "tuple", "sorted", "enumerate", "iter", "next", "map", "zip") and n.args:
                    for a in n.args:
                        its.append((n.func.id, a))
                for kind, e in its:
                    nm = mentions(e)
                    if nm:
                        sites.append({"file": rel, "function": funcs.get(id(n), "<module>"), "kind": kind, "name": nm})
                    elif kind != "sorted" and is_set_expr(e, svars.get(id(n), ())):
                        # iteration over any other syntactic set (hash-ordered: of strings it varies with PYTHONHASHSEED, of objects with addresses)
                        sites.append({"file": rel, "function": funcs.get(id(n), "<module>"), "kind": kind, "name": "set-expression:" + ast.unparse(e)[:60]})
    uniq = sorted({json.dumps(s, sort_keys=True) for s in sites})
    return [json.loads(s) for s in uniq]


if __name__ == "__main__":
    print(json.dumps(scan(), indent=1))
