"""ScriptedSource: a RandomSource that replays a tape of scripted answers and logs every request.
Imported only inside driver subprocesses (PYTHONPATH=/repo)."""
from __future__ import annotations

from fractions import Fraction

from geneticengine.random.sources import RandomSource


class BadTape(Exception):
    """The tape ended, or its next answer does not fit the request (mirrors Err BadTape of the model)."""


class ScriptedSource(RandomSource):
    def __init__(self, tape):
        self.tape = list(tape)
        self.pos = 0
        self.log = []

    def _next(self, kind):
        if self.pos >= len(self.tape):
            raise BadTape(kind)
        d = self.tape[self.pos]
        if d[0] != kind:
            raise BadTape(kind)
        self.pos += 1
        return d[1]

    def randint(self, min, max):
        if max < min:
            raise ValueError("empty range for randint")
        if self.pos >= len(self.tape):
            self.log.append(("i", min, max, None))
            raise BadTape((min, max))
        v = self._next("i")
        if not (min <= v <= max):
            raise BadTape((min, max, v))
        self.log.append(("i", min, max, v))
        return v

    def random_float(self, min, max):
        n, d = self._next("f")
        u = n / d
        self.log.append(("f", min, max, (n, d)))
        return u * (max - min) + min

    def normalvariate(self, mean, sigma):
        # like NativeRandomSource, which overrides Box-Muller with the generator's own method
        n, d = self._next("f")
        return (n / d) * sigma + mean

    def remaining(self):
        return self.tape[self.pos:]


def frac(x):
    """JSON [num, den] -> float (exact for the dyadic values the generators use)."""
    return x[0] / x[1]


def ratio(v):
    """float/int -> [num, den] exactly"""
    f = Fraction(v)
    return [f.numerator, f.denominator]
