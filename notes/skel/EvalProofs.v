(* EvalProofs.v — property C13: fitness is computed from the program, once, counted honestly;
   the parallel evaluator agrees with the sequential one. *)
From GE Require Import Base Search.
From Coq Require Import Permutation Lia ZArith List QArith.
Import ListNotations.
Open Scope Z_scope.

Section Eval.
Variable ff : N -> list Q.          (* the user's fitness function *)
Variable probs : N -> problem.      (* several problems may share individuals: problem id -> problem *)

(* one call of an evaluator on a batch, for the problem [pid] *)
Inductive call :=
| CSeq (pid : N) (batch : list N)
| CPar (pid : N) (order batch : list N).

(* evaluator states reachable from the initial one by any sequence of evaluator calls; a
   parallel call may invoke the fitness function in any order (any permutation of its work list) *)
Inductive reach : ev -> Prop :=
| reach0 : reach ev0
| reach_seq e pid b e' : reach e -> eval_seq ff (probs pid) pid e b = Ok e' -> reach e'
| reach_par e pid o b e' : reach e -> Permutation o (par_todo pid e b) ->
    eval_par ff (probs pid) pid o e b = Ok e' -> reach e'.

(* the recorded fitness equals what the problem computes from the fitness function's result *)
Theorem cache_correct e : reach e ->
  forall i pid f, lookup (st e) (i, pid) = Some f -> exists n, evaluate (probs pid) (ff i) = Ok (f, n).
Admitted.

(* the evaluation counter equals the number of invocations of the fitness function *)
Theorem count_honest e : reach e -> count e = zlen (calls e).
Admitted.

(* at most one invocation per (individual, problem) pair, whatever is re-presented *)
Theorem once e : reach e -> NoDup (calls e).
Admitted.

Theorem calls_iff_cached e : reach e -> forall k, In k (calls e) <-> has_fit (st e) k = true.
Admitted.

(* parallel = sequential on caches and counter, for every batch (duplicates, mixes of evaluated
   and new individuals) and every scheduling order; the invocation logs agree as multisets *)
Theorem par_eq_seq e pid o b e1 e2 :
  Permutation o (par_todo pid e b) ->
  eval_par ff (probs pid) pid o e b = Ok e1 ->
  eval_seq ff (probs pid) pid e b = Ok e2 ->
  count e1 = count e2 /\ (forall k, lookup (st e1) k = lookup (st e2) k) /\ Permutation (calls e1) (calls e2).
Admitted.

Theorem par_seq_same_failures e pid o b :
  is_ok (eval_par ff (probs pid) pid o e b) = is_ok (eval_seq ff (probs pid) pid e b).
Admitted.

End Eval.

(* the aggregate used for comparisons *)
Theorem aggregate_single (v : Q) (m : bool) : evaluate (SO m) [v] = Ok (mkFit (if m then (- v)%Q else v) [v], 1).
Admitted.

Theorem aggregate_multi_default (raw : list Q) (bs : list bool) :
  evaluate (MO (MinList bs) AggDefault) raw = Ok (mkFit (merge_list raw bs) raw, 1).
Admitted.

(* merge_list is the sum of the components with the minimised ones negated *)
Theorem merge_list_spec (raw : list Q) (bs : list bool) : length raw = length bs ->
  (merge_list raw bs == qsum (map (fun fm : Q * bool => if snd fm then - fst fm else fst fm) (combine raw bs)))%Q.
Admitted.

Theorem aggregate_multi_bool (raw : list Q) (b : bool) :
  evaluate (MO (MinBool b) AggDefault) raw = Ok (mkFit (qsum (map (fun f : Q => if b then (- f)%Q else f) raw)) raw, 1).
Admitted.
