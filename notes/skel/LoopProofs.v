(* LoopProofs.v — property C14: searches terminate and stop at the first budget check at which the
   budget is met. *)
From GE Require Import Base Search.
From Coq Require Import Permutation Lia ZArith List QArith.
Import ListNotations.
Open Scope Z_scope.

Section Loops.
Variable ff : N -> list Q.
Variable p : problem.
Variable pid : N.
(* the user's fitness function returns something the problem accepts, for every program *)
Hypothesis ff_ok : forall i, exists f, evaluate p (ff i) = Ok (f, 1).

Definition fresh_tracker (tr : tracker) : Prop := tr = TSO so0 \/ tr = TMO mo0.
Definition s_init (tr : tracker) : sstate := mkS ev0 tr 0%N [].

(* counters seen by the successive checks of a run that stops at [n]: n, n-1, ..., 0 (newest first),
   only the last check answering "done" *)
Fixpoint countdown (k : nat) : list (Z * bool) :=
  match k with O => [] | S j => (Z.of_nat j, false) :: countdown j end.

(* random search and (1+1): terminates, exactly n evaluations, n+1 checks, stops at the first
   check at which count >= n *)
Theorem rs_stops n tr0 fuel :
  0 <= n -> (Z.to_nat n < fuel)%nat -> fresh_tracker tr0 ->
  exists s, rs_loop ff p pid fuel (EvalBudget n) (s_init tr0) = Ok s /\
            count (s_ev s) = n /\ s_checks s = (n, true) :: countdown (Z.to_nat n).
Admitted.

(* hill climbing: terminates with n <= total < n + m  (m >= 1 the neighbourhood size) *)
Theorem hc_stops n m tr0 fuel :
  1 <= n -> (1 <= m)%nat -> (Z.to_nat n < fuel)%nat -> fresh_tracker tr0 ->
  exists s, hc_loop ff p pid fuel (EvalBudget n) m true (s_init tr0) = Ok s /\
            n <= count (s_ev s) < n + Z.of_nat m.
Admitted.

(* for every budget (evaluation, target fitness, disjunctions) and every loop: the loop stops at
   the FIRST check that answers "done" — every earlier check answered "not done" *)
Definition first_done (checks : list (Z * bool)) : Prop :=
  exists c rest, checks = (c, true) :: rest /\ Forall (fun x => snd x = false) rest.

Theorem rs_first_check fuel b s0 s :
  Forall (fun x => snd x = false) (s_checks s0) ->
  rs_loop ff p pid fuel b s0 = Ok s -> first_done (s_checks s) /\ is_done pid b (s_ev s) (s_tr s) = Ok true.
Admitted.

Theorem hc_first_check fuel b m first s0 s :
  Forall (fun x => snd x = false) (s_checks s0) ->
  hc_loop ff p pid fuel b m first s0 = Ok s -> first_done (s_checks s) /\ is_done pid b (s_ev s) (s_tr s) = Ok true.
Admitted.

Theorem gp_first_check par b gens s0 s :
  Forall (fun x => snd x = false) (s_checks s0) ->
  gp_loop ff p pid par b gens s0 = Ok s -> first_done (s_checks s) /\ is_done pid b (s_ev s) (s_tr s) = Ok true.
Admitted.

(* genetic programming.  The step is an oracle producing the successive populations [gens]; under
   "progress" (every generation contains an individual never seen before) and populations of size
   P, the search terminates within n generations and n <= total < n + P. *)
Fixpoint progressive (seen : list N) (gens : list (list N)) : Prop :=
  match gens with
  | [] => True
  | g :: t => (exists i, In i g /\ ~ In i seen) /\ progressive (g ++ seen) t
  end.

Theorem gp_stops n P init gens tr0 :
  1 <= n -> (1 <= P)%nat -> fresh_tracker tr0 ->
  length init = P -> Forall (fun g => length g = P) gens ->
  progressive init gens -> (Z.to_nat n <= length gens)%nat ->
  exists s, gp_search ff p pid false (EvalBudget n) init gens tr0 = Ok s /\
            n <= count (s_ev s) < n + Z.of_nat P.
Admitted.

(* the boundary of the claim: without progress GP need not terminate (e.g. step = ElitismStep,
   which keeps returning already-evaluated individuals): however many generations are supplied the
   budget is never met *)
Theorem gp_no_progress_refuted :
  forall k, gp_search ff p pid false (EvalBudget 2) [0%N] (repeat [0%N] k) (TSO so0) = Err OutOfFuel.
Admitted.

End Loops.

(* what the budgets mean *)
Theorem eval_budget_spec pid n e tr : is_done pid (EvalBudget n) e tr = Ok (n <=? count e).
Admitted.

Theorem anyof_spec pid a b e tr :
  is_done pid (AnyOf a b) e tr = Ok true <->
  is_done pid a e tr = Ok true \/ (is_done pid a e tr = Ok false /\ is_done pid b e tr = Ok true).
Admitted.

Theorem target_spec pid t e tt :
  is_done pid (TargetFit t) e (TSO tt) = Ok true <->
  exists b f c rest, so_best tt = Some b /\ lookup (st e) (b, pid) = Some f /\ comps f = c :: rest /\
                     (Qabs_ (c - t) < 1 # 10000)%Q.
Admitted.
