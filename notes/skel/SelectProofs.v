(* SelectProofs.v — properties C16 (elitism keeps the best) and C17 (selection operators are sound). *)
From GE Require Import Base Tape Search Steps TapeProofs.
From Coq Require Import Permutation Lia ZArith List QArith.
Import ListNotations.
Open Scope Z_scope.

Section Select.
Variable s : store.
Variable pid : N.

(* "y is strictly better than x" *)
Definition sbetter (y x : N) : Prop :=
  exists fy fx, lookup s (y, pid) = Some fy /\ lookup s (x, pid) = Some fx /\ (agg fx < agg fy)%Q.

(* ---------------- C16 ---------------- *)
Theorem elitism_length pop k out :
  elitism s pid pop k = Ok out -> 0 <= k -> zlen out = Z.min k (zlen pop).
Admitted.

(* the output is the requested number of individuals of the population (as a multiset: the rest of
   the population is what was excluded) and no excluded individual is strictly better than an
   included one *)
Theorem elitism_topk pop k out :
  elitism s pid pop k = Ok out -> 0 <= k ->
  exists rest, Permutation pop (out ++ rest) /\
               forall x y, In x out -> In y rest -> ~ sbetter y x.
Admitted.

(* with at least one slot the best of the population survives: for every individual of the input
   some output individual is at least as good *)
Theorem elitism_keeps_best pop k out :
  elitism s pid pop k = Ok out -> 1 <= k -> 
  forall y, In y pop -> exists x, In x out /\ ~ sbetter y x.
Admitted.

(* consequently the best fitness present never gets worse from one generation to the next when the
   next generation contains the elitism slice *)
Theorem best_monotone pop k out others :
  elitism s pid pop k = Ok out -> 1 <= k ->
  forall y, In y pop -> exists x, In x (out ++ others) /\ ~ sbetter y x.
Admitted.

Theorem elitism_total pop k :
  (forall i, In i pop -> exists f, lookup s (i, pid) = Some f) -> exists out, elitism s pid pop k = Ok out.
Admitted.

(* ---------------- C17: tournament ---------------- *)
(* every winner is one of the participants drawn for its tournament, the participants are members
   of the population, and no participant is strictly better than the winner; exactly k winners *)
Theorem tournament_sound k r pop cands size repl res r' :
  tournament s pid k r pop cands size repl = Ok (res, r') -> incl cands pop ->
  length res = k /\
  Forall (fun wp => In (fst wp) (snd wp) /\ incl (snd wp) pop /\ length (snd wp) = size /\
                    forall p, In p (snd wp) -> ~ sbetter p (fst wp)) res.
Admitted.

(* ---------------- C17: lexicase ---------------- *)
Theorem lex_filter_incl eps mins cands cases surv :
  lex_filter s pid eps mins cands cases = Ok surv -> incl surv cands.
Admitted.

Theorem lex_filter_nonempty eps mins cands cases surv :
  lex_filter s pid eps mins cands cases = Ok surv -> cands <> [] -> surv <> [].
Admitted.

(* what surviving the first case means: the survivor's value on that case passes the keep test
   computed from all candidates' values on that case *)
Theorem lex_first_case eps mins cands c rest surv :
  lex_filter s pid eps mins cands (c :: rest) = Ok surv -> (2 <= length cands)%nat ->
  forall x, In x surv ->
  exists v vals m keep, comp_of s pid x c = Ok v /\ comps_of s pid cands c = Ok vals /\
                        nth_error mins c = Some m /\ lex_keep eps m vals = Ok keep /\ keep v = true.
Admitted.

(* without epsilon the keep test is "best on that case" in the case's direction *)
Theorem lex_keep_best m vals keep v :
  lex_keep false m vals = Ok keep ->
  (keep v = true <-> forall u, In u vals -> if m then (v <= u)%Q else (u <= v)%Q).
Admitted.

(* with epsilon the keep test is "within the band best +- MAD", and the band is non-negative, so
   the best individuals always pass *)
Theorem lex_keep_eps m vals keep v :
  lex_keep true m vals = Ok keep ->
  (forall u, In u vals -> if m then (v <= u)%Q else (u <= v)%Q) -> In v vals -> keep v = true.
Admitted.

(* every winner is one of the candidates still available when it is chosen and survives the
   lexicase filter for the case order shuffled for that winner (a permutation of all cases); the
   winners, with multiplicity, are drawn from the population without replacement *)
Theorem lexicase_sound k r eps mins ncases cands res r' :
  lexicase s pid k r eps mins ncases cands = Ok (res, r') ->
  length res = k /\
  (exists rest, Permutation cands (map (fun x => fst (fst x)) res ++ rest)) /\
  Forall (fun x => let '(w, avail, cases) := x in
                   incl avail cands /\ Permutation (nat_range ncases) cases /\
                   exists surv, lex_filter s pid eps mins avail cases = Ok surv /\ In w surv) res.
Admitted.

End Select.
