(* StepsProofs.v — property C15: population size is invariant across step compositions. *)
From GE Require Import Base Tape Search Steps.
From Coq Require Import Permutation Lia ZArith List QArith Qround.
Import ListNotations.
Open Scope Z_scope.

(* the slices of a parallel combinator form a chain 0 = a0 <= b0 = a1 <= ... <= b_last = k *)
Inductive chain : Z -> list (Z * Z) -> Z -> Prop :=
| chain_one a k : a <= k -> chain a [(a, k)] k
| chain_cons a b rs k : a <= b -> chain b rs k -> chain a ((a, b) :: rs) k.

Theorem round_he_nonneg q : (0 <= q)%Q -> 0 <= round_he q.
Admitted.

Theorem ranges_chain ws n k :
  ws <> [] -> Forall (fun w => (0 <= w)%Q) ws -> (0 < qsum ws)%Q -> 0 <= n -> 0 <= k ->
  exists rs, ranges ws n k = Ok rs /\ length rs = length ws /\ chain 0 rs k.
Admitted.

(* Each built-in step, asked for k individuals and given a population of at least k, yields exactly
   k — for every nesting depth, every weight vector, every size. *)
Theorem out_len_exact mo s :
  wf_step s -> (uses_lexicase s = true -> mo = true) ->
  forall n k, 0 <= k <= n -> out_len mo s n k = Ok k.
Admitted.

(* every generation of a GP run has the configured size: the step maps a population of size P to
   a population of size P *)
Theorem gp_generation_size mo s P :
  wf_step s -> (uses_lexicase s = true -> mo = true) -> 0 <= P -> out_len mo s P P = Ok P.
Admitted.

Fixpoint wf_init (i : init) : Prop :=
  match i with IInject m backup => 0 <= m /\ wf_init backup | _ => True end.

Theorem init_len_exact i k : wf_init i -> 0 <= k -> init_len i k = k.
Admitted.
