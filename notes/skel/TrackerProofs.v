(* TrackerProofs.v — property C12: the reported best individual really is the best evaluated;
   recorders are told "new best" exactly for the first individual and for strict improvements;
   for the multi-objective tracker every member of the front attains the best aggregate so far. *)
From GE Require Import Base Search.
From Coq Require Import Permutation Lia ZArith List QArith.
Import ListNotations.
Open Scope Z_scope.

Definition extends (s s' : store) : Prop := forall k f, lookup s k = Some f -> lookup s' k = Some f.

Section Tracker.
Variable pid : N.

Section FixedStore.
Variable s : store.        (* a fitness table in which every posted individual is evaluated *)

Definition betterb (i j : N) : bool :=
  match lookup s (i, pid), lookup s (j, pid) with
  | Some fi, Some fj => is_better fi fj
  | _, _ => false
  end.

(* "i is strictly better than j": agg j < agg i *)
Definition better (i j : N) : Prop :=
  exists fi fj, lookup s (i, pid) = Some fi /\ lookup s (j, pid) = Some fj /\ (agg fj < agg fi)%Q.

Lemma betterb_iff i j : betterb i j = true <-> better i j.
Admitted.

Definition evaluated (l : list N) : Prop := forall i, In i l -> exists f, lookup s (i, pid) = Some f.

Theorem so_posts_total l : evaluated l -> exists tr, so_posts pid s so0 l = Ok tr.
Admitted.

(* the best is one of the evaluated individuals and nobody evaluated so far is strictly better *)
Theorem so_best_inv l tr : so_posts pid s so0 l = Ok tr -> l <> [] ->
  exists b, so_best tr = Some b /\ In b l /\ forall x, In x l -> ~ better x b.
Admitted.

(* is_best flags, chronologically: true exactly for the first individual and for those strictly
   better than every earlier one *)
Fixpoint so_flags_from (prev : list N) (l : list N) : list (N * bool) :=
  match l with
  | [] => []
  | i :: t => (i, forallb (fun j => betterb i j) prev) :: so_flags_from (prev ++ [i]) t
  end.

Theorem so_flags l tr : so_posts pid s so0 l = Ok tr -> rev (so_rec tr) = so_flags_from [] l.
Admitted.

Theorem mo_posts_total l : evaluated l -> exists tr, mo_posts pid s mo0 l = Ok tr.
Admitted.

(* every member of the front was evaluated and attains the best aggregate seen so far *)
Theorem mo_front_inv l tr : mo_posts pid s mo0 l = Ok tr -> l <> [] ->
  front tr <> [] /\ forall b, In b (front tr) -> In b l /\ forall x, In x l -> ~ better x b.
Admitted.

(* is_best flags of the multi-objective tracker: true exactly when no earlier individual is
   strictly better (the aggregate is at least the best so far) *)
Fixpoint mo_flags_from (prev : list N) (l : list N) : list (N * bool) :=
  match l with
  | [] => []
  | i :: t => (i, forallb (fun j => negb (betterb j i)) prev) :: mo_flags_from (prev ++ [i]) t
  end.

Theorem mo_flags l tr : mo_posts pid s mo0 l = Ok tr -> rev (mo_rec tr) = mo_flags_from [] l.
Admitted.

End FixedStore.

(* caches only grow, so what a tracker computed on an earlier store it computes on a later one *)
Theorem so_posts_extends s s' tr l tr' :
  extends s s' -> so_posts pid s tr l = Ok tr' -> so_posts pid s' tr l = Ok tr'.
Admitted.

Theorem mo_posts_extends s s' tr l tr' :
  extends s s' -> mo_posts pid s tr l = Ok tr' -> mo_posts pid s' tr l = Ok tr'.
Admitted.

Section Runs.
Variable ff : N -> list Q.
Variable p : problem.

Theorem eval_seq_extends e b e' : eval_seq ff p pid e b = Ok e' -> extends (st e) (st e').
Admitted.

Theorem eval_par_extends o e b e' : eval_par ff p pid o e b = Ok e' -> extends (st e) (st e').
Admitted.

(* a whole run: any sequence of tracker.evaluate calls (either evaluator) *)
Fixpoint so_run (e : ev) (tr : so_tracker) (batches : list (bool * list N)) : res (ev * so_tracker) :=
  match batches with
  | [] => Ok (e, tr)
  | (par, b) :: t => let* (e', tr') := so_evaluate ff p pid par e tr b in so_run e' tr' t
  end.

Fixpoint mo_run (e : ev) (tr : mo_tracker) (batches : list (bool * list N)) : res (ev * mo_tracker) :=
  match batches with
  | [] => Ok (e, tr)
  | (par, b) :: t => let* (e', tr') := mo_evaluate ff p pid par e tr b in mo_run e' tr' t
  end.

(* the tracker state after a run is what posting the whole history against the final caches gives *)
Theorem so_run_posts e tr batches e' tr' :
  so_run e tr batches = Ok (e', tr') -> so_posts pid (st e') tr (concat (map snd batches)) = Ok tr'.
Admitted.

Theorem mo_run_posts e tr batches e' tr' :
  mo_run e tr batches = Ok (e', tr') -> mo_posts pid (st e') tr (concat (map snd batches)) = Ok tr'.
Admitted.

(* every individual whose fitness was computed during the run was presented to the tracker *)
Theorem so_run_calls batches e' tr' :
  so_run ev0 so0 batches = Ok (e', tr') -> forall k, In k (calls e') -> In (fst k) (concat (map snd batches)) /\ snd k = pid.
Admitted.

(* C12 for a whole single-objective run: at every point the reported best is an evaluated
   individual and no individual evaluated so far is strictly better *)
Theorem so_run_best batches e' tr' :
  so_run ev0 so0 batches = Ok (e', tr') -> concat (map snd batches) <> [] ->
  exists b, so_best tr' = Some b /\ In b (concat (map snd batches)) /\
            forall k, In k (calls e') -> ~ better (st e') (fst k) b.
Admitted.

Theorem mo_run_best batches e' tr' :
  mo_run ev0 mo0 batches = Ok (e', tr') -> concat (map snd batches) <> [] ->
  front tr' <> [] /\ forall b, In b (front tr') -> In b (concat (map snd batches)) /\
            forall x, In x (concat (map snd batches)) -> ~ better (st e') x b.
Admitted.

End Runs.
End Tracker.
