#!/usr/bin/env bash
# Builds the Coq development (full .vo build) from files on disk. Offline.
set -euo pipefail
cd "${VERIF_HOME:-/verif}/coq"
coq_makefile -f _CoqProject -o Makefile.coq >/dev/null
timeout 3000 make -f Makefile.coq -j16 >build.log 2>&1 || { tail -50 build.log; exit 1; }
echo "coq build ok"
