#!/venv/bin/python
"""Regenerates MANIFEST.json from the table below (kept valid at all times)."""
import json

CHECKS = {
    "C18": dict(
        technique="Coq proof (induction on lists / arithmetic with lia) over a hand-written Gallina model of the random primitives + differential correspondence (cases evaluated by vm_compute) + contract evaluated on implementation outputs",
        text="14 theorems (Props/C18.v, all closed under the global context) state the contracts for every source state, every bound pair and every option/weight list, unboundedly: randint range and totality for gene sources, choice membership, weighted choice never selects a zero-increment option and selects exactly the draws in [acc[i-1],acc[i]), shuffle is a permutation, pop_random removes exactly the returned element, BaseDecider/DynamicSGE integer draws stay in bounds. The model is tied to /repo by running ~2500 generated operations (boundary genes, scripted tapes, exhaustive small spaces) on the real classes and comparing with the model inside Coq on every run.",
        note="Trusted: Coq kernel + vm_compute; hand-written model Model/Tape.v; Python harness (ScriptedSource, generators). Float bounds proved over Q only (partial: IEEE rounding of the last operation not covered). Native source same-seed-same-stream is CPython's contract (exercised). round(log10(w)) modelled on integers.",
        design="4 (C18)",
    ),
}

CHECKS["C12"] = dict(
    technique="Coq proof (invariants by induction over the history of presented individuals) over a hand-written Gallina model of both progress trackers and the search loops + differential correspondence + contract evaluated on implementation outputs",
    text="11 theorems (Props/C12.v, closed under the global context): for every history of fitness values (rationals; ties, plateaus, late improvements), both directions, single- and multi-objective trackers, either evaluator and any batching: the reported best is an evaluated individual and nobody whose fitness was computed is strictly better; is_best flags are exactly 'first or strictly better than all earlier' (single) / 'at least the best so far' (multi); every front member attains the best aggregate. Tied to /repo by exhaustive small histories (all sequences of length <= 4 over 3 values, both directions) plus random histories and whole searches (RS, 1+1, HC, GP) compared with the model inside Coq on every run.",
    note="Trusted: Coq kernel + vm_compute; hand-written model Model/Search.v; Python harness. Fitness floats abstracted to exact rationals; NaN/inf outside the model. Individuals evaluated inside a step via evaluator.evaluate and then dropped never reach the tracker (known finding F20, DESIGN section 6): theorems speak about individuals presented to the tracker.",
    design="4 (C12)",
)
CHECKS["C13"] = dict(
    technique="Coq proof (reachability invariant by induction over evaluator calls; permutation argument for the parallel evaluator) over a hand-written Gallina model + differential correspondence with the real Sequential/ParallelEvaluator + contract evaluated on implementation outputs",
    text="10 theorems (Props/C13.v, closed under the global context): for every evaluator state reachable by any sequence of calls of either evaluator on any batches (duplicates, already-evaluated individuals, several problems sharing individuals): cached fitness = Problem.evaluate(ff(program)); counter = number of fitness invocations; at most one invocation per (individual, problem); parallel = sequential on caches and counter for every scheduling order; aggregate formulas. Tied to /repo by ~170 generated call sequences per run on the real evaluators (incl. real pathos pools) with a file-backed invocation log, compared inside Coq.",
    note="Trusted: Coq kernel + vm_compute; hand-written model; harness. PARTIAL for scheduling: worker completion order is an arbitrary permutation in the model and pathos ProcessingPool.map is trusted to return results in argument order (exercised with real pools, not proved). Floats abstracted to rationals.",
    design="4 (C13)",
)
CHECKS["C14"] = dict(
    technique="Coq proof (induction on fuel / on the list of generations with a freshness invariant) over a hand-written Gallina model of budgets and the four search loops + differential correspondence of budget-check traces + contract evaluated on implementation outputs",
    text="10 theorems (Props/C14.v, closed under the global context): RS and (1+1) terminate with exactly n evaluations and n+1 checks; HC terminates with n <= total < n+m; GP under progress terminates with n <= total < n+P for every sequence of populations the step may produce; every loop with every budget (evaluation, target, disjunction) stops at the first check answering done; without progress GP never terminates (refuted boundary, known finding F23). Tied to /repo by event traces (counter at each is_done call, returned individual) of all four algorithms under generated budgets.",
    note="Trusted: Coq kernel + vm_compute; hand-written model; harness. The GP step is an oracle (observed populations are fed to the model loop; the theorem quantifies over all behaviours with progress). TimeBudget outside the model. Known finding F23 listed in known_findings.json.",
    design="4 (C14)",
)

CHECKS["C15"] = dict(
    technique="Coq proof (custom induction principle over the nested step-tree type; chain invariant for the slices of the parallel combinators) over a hand-written Gallina size model of every built-in step, combinator and initialiser + differential correspondence on real step objects",
    text="4 theorems (Props/C15.v, closed under the global context): for EVERY step tree of any nesting depth over the built-in steps, every weight vector (non-negative, positive total, however the shares round), every population size n >= k >= 0, list(step.apply(...)) has exactly k individuals; hence every GP generation has population_size individuals; every initialiser incl. injected populations of every length yields exactly k. Tied to /repo by ~2500 generated (step tree, n, k, population form) cases per run, all weight vectors over {0,1,2,5,90}^<=3 for both parallel combinators, all three population forms (list, Population, one-shot generator), plus whole GP runs observed per generation.",
    note="Trusted: Coq kernel + vm_compute; hand-written size model Model/Steps.v (individuals abstracted away); harness. round() modelled as half-even on rationals (the theorem holds for any rounding). Known finding F27 (parameterless initialiser ignores the requested size by design) listed in known_findings.json.",
    design="4 (C15)",
)
CHECKS["C16"] = dict(
    technique="Coq proof (stable insertion sort is a strongly sorted permutation; prefix/suffix argument) over a hand-written Gallina model of ElitismStep/sort_population + differential correspondence + contract evaluated on implementation outputs",
    text="5 theorems (Props/C16.v, closed under the global context): for every population (ties, the same individual twice), both directions, every elite count: the output has min(k,|pop|) individuals, is a sub-multiset of the population, no excluded individual is strictly better than an included one; with >= 1 slot the best survives, so the best fitness of the next generation is never worse whatever the other slices produce. Tied to /repo by ~1600 generated cases per run on the real ElitismStep (three population forms) and by whole GP runs whose per-generation best is checked for monotonicity.",
    note="Trusted: Coq kernel + vm_compute; hand-written model; harness; CPython's sorted() stability. Monotonicity is conditional on >= 1 elitism slot, as the property states (the default 5% slot rounds to 0 below population 10).",
    design="4 (C16)",
)
CHECKS["C17"] = dict(
    technique="Coq proof (induction over the selection loop for every random source state = all outcomes of the draws) over a hand-written Gallina model of TournamentSelection and LexicaseSelection (incl. epsilon/MAD over Q) + differential correspondence with exhaustive replay-and-branch enumeration of the implementation's decision sequences for small populations",
    text="7 theorems (Props/C17.v, closed under the global context): tournament: exactly k winners, each one of the participants drawn for its tournament, participants are population members, no participant strictly better than the winner (sizes 1.., with/without replacement); lexicase: winners drawn without replacement from the population, each survives the lexicase filter for the case order freshly shuffled for it (a permutation of all cases); surviving the first case = best on it (or within the non-negative MAD band). Tied to /repo by enumerating ALL outcomes of the random draws for populations <= 3 and <= 3 cases (~1900 decision sequences per run) and random larger cases with gene-backed draws, compared inside Coq.",
    note="Trusted: Coq kernel + vm_compute; hand-written model; harness (RecordingSource records every choice()/shuffle()); numpy.median agrees with the rational median (exercised).",
    design="4 (C17)",
)

CHECKS["C20"] = dict(
    technique="Coq proof (fold invariant over the history of registrations) over a hand-written Gallina model of the CSV recorder (rows on disk + writer buffer) + differential correspondence on the bytes of the real file re-read after every registration",
    text="6 theorems (Props/C20.v, closed under the global context): for every column configuration, both recording modes and every history of registrations: after construction and after every register the writer's buffer is empty and the file is the header followed by one complete row per recorded individual (all, or only those flagged best); the file at any earlier point is a prefix of the file at any later point; the k-th fitness column holds the k-th component of that row's individual and every extra field its own callback. Tied to /repo by ~120 generated configurations per run (1-4 objectives, extra fields, three construction routes incl. SimpleGP.build_recorder and a real tracker), the file being parsed through an independent handle after construction and after every registration and compared with the model inside Coq.",
    note="PARTIAL: survival of flushed bytes across a process kill is the OS's contract, and the instant between writerow and flush inside one register() call is not modelled. Trusted: Coq kernel + vm_compute; hand-written model; harness; csv module quoting.",
    design="4 (C20)",
)

CHECKS["C19"] = dict(
    technique="Coq proof (invariant of the registration walk by induction on fuel: rules are duplicate-free, disjoint, non-empty; field arithmetic over Q for the normalisation loop; shape-independence of the analysis from the weights) over a hand-written Gallina model of extract_grammar/update_weights + differential correspondence on real class hierarchies extracted 1-3 times + contract evaluated on the observed get_weights()",
    text="6 theorems (Props/C19.v, closed under the global context): for EVERY class hierarchy and every iteration order, after a weighted extraction every rule's reported weights sum to one, lie in [0,1] and keep the declared ratios (unweighted = 1); extracting again yields the same productions and the same weight for every symbol; an all-zero rule is an error, never a silently wrong grammar; the weighted chooser never returns a zero-increment option. Tied to /repo by ~230 generated hierarchies per run (nested abstract types, zero weights, productions reached only through fields, unreachable classes) materialised as real modules and extracted 1-3 times; the whole Grammar object is compared with the model inside Coq.",
    note="Trusted: Coq kernel + vm_compute; hand-written model Model/Grammar.v; harness. Weights are exact rationals in the model, floats compared with tolerance 1e-9 (float rounding: partial). The production choice of ProgressivelyTerminalDecider multiplies the weight by a depth heuristic that may itself be zero; the chooser clause is proved for RandomSource.choice_weighted (shared with C18) and the decider's use of it is covered by the synthesis model (C01).",
    design="4 (C19)",
)

CHECKS["C05"] = dict(
    technique="Coq proof (invariants of the registration walk by induction on fuel with a set of pending symbols; exit condition of the distance fixpoint loop + mutual induction over derivations for the lower bound; witness invariant over the passes for the upper bound; breadth-first reachability invariant) over a hand-written Gallina model of extract_grammar/preprocess/usable_grammar + differential correspondence on generated class hierarchies under three PYTHONHASHSEEDs + an independent specification (level sets of derivability, relational closure) evaluated on the observed Grammar objects",
    text="4 theorems (Props/C05.v, closed under the global context): for EVERY class hierarchy and EVERY iteration order of the symbol set: the productions of an abstract type are exactly the registered classes whose direct parent it is (duplicate-free, non-empty, unique keys); in the default depth mode the reported minimum depth of a class is a lower bound on the depth of every derivable program and, when finite, is attained by one (derivations with non-empty lists), hence is independent of the iteration order; the recursive set is exactly the set of registered symbols on a cycle of the can-contain relation (through lists, annotations, unions, tuples). Tied to /repo by ~280 generated hierarchies x 3 hash seeds per run (all field type forms, unreachable and standalone classes, both depth modes, a second grammar extracted over the same classes in between) compared with the model inside Coq; usable_grammar() compared with the model and with the independently computed reachable set.",
    note="Trusted: Coq kernel + vm_compute; hand-written model Model/Grammar.v; Spec/WellTyped.v; harness. PARTIAL: exactness of minimum depths is proved for the default depth mode only (expansion-depthing: correspondence only); usable_grammar is modelled and compared but its theorem is not proved (checked per case against the independent reachability specification). Known findings F10 (lists that may be empty still cost their element's depth) and F35 (usable_grammar keeps unreachable abstract parents of reachable productions) listed in known_findings.json.",
    design="4 (C05)",
)

CHECKS["C10"] = dict(
    technique="Coq proof (frame lemma for every primitive of a state-and-error monad, lifted through the loops of create_node by induction on fuel; state kept on failure so that failing and backtracking runs are covered) over a hand-written Gallina model of the deciders, create_node and the metahandlers in which Grammar.alternatives is part of the threaded state + differential correspondence on real classes/deciders/sources observing Grammar.alternatives before and after every call",
    text="3 theorems (Props/C10.v, closed under the global context): for every grammar, type, context, decider (grow, full, PI-grow, progressive, dynamic SGE), random source state and fuel, whether create_node returns a program, fails, or backtracks over productions internally, the productions in the final state are those of the initial state; the same along any sequence of creations each starting from the state the previous one left; choosing a production never writes. Tied to /repo by ~260 runs per check (a family whose dependent refinement is infeasible for some sibling values, forcing the backtracking loop; generated hierarchies; recorded, extreme and gene-backed random sources) in which the result, the state of the random source and Grammar.alternatives before/after are compared with the model inside Coq.",
    note="Trusted: Coq kernel + vm_compute; hand-written model Model/Synth.v; harness. Distances, recursive set and weights are not written by any modelled operation (they are not part of the threaded state); the tree representation's create path is covered, mapping/mutation/crossover of the other representations call the same create_node.",
    design="4 (C10)",
)

CHECKS["C01"] = dict(
    technique="Coq proof (mutual inductive specification Sat/WT of typed, refined programs; induction on fuel over the state-and-error monad of create_node with one lemma per loop: backtracking over productions, fields with sibling values, tuples, repeated elements; membership lemma for every decider) over a hand-written Gallina model of the five deciders, create_node and the metahandlers + differential correspondence on real classes, deciders and random sources + the typing judgement evaluated on every observed program",
    text="3 theorems (Props/C01.v, closed under the global context): for EVERY class hierarchy whose annotations refine a base type they can produce values of (decl_ok), every iteration order, every decider (grow, full, PI-grow, progressive, dynamic SGE), random source state, context and fuel, a value returned by create_node is a program of the requested type: a registered concrete production reachable through the rules where an abstract type is declared, well-typed list elements, a real tuple, one alternative of a union, exactly the declared base type; also after any sequence of earlier creations; a decider's pick is always one of the offered candidates. Tied to /repo by ~315 runs per check (a hierarchy with every field type form, generated hierarchies; recorded native streams, extreme scripted answers, GE/SGE gene sources; all four tree deciders) whose result, exception class, source state and productions are compared with the model inside Coq, and whose programs are type-checked field by field (bool is not int, a generator is foreign).",
    note="Trusted: Coq kernel + vm_compute; hand-written model Model/Synth.v; Spec/WellTyped.v, Spec/Sat.v; harness. Proved for create_node (the path every representation's creation and mapping goes through); mutation/crossover of the tree representation regenerate through the same create_node (see C06); the stack representation is not covered by this theorem. Known finding F38 (ProgressivelyTerminalDecider has no depth bound: RecursionError) listed in known_findings.json.",
    design="4 (C01)",
)
CHECKS["C02"] = dict(
    technique="Coq proof (the Sat specification gives every refinement its documented predicate, dependent refinements evaluated against the actual sibling values; induction on fuel as for C01 with a typing invariant on the sibling values; separate lemmas: generate/validate agreement, validate soundness) over a hand-written Gallina model of all metahandler generate/validate methods and create_node + differential correspondence + the specification evaluated on every observed program (strict) + each refinement's generate/validate driven on its own",
    text="5 theorems (Props/C02.v, closed under the global context): every value create_node returns satisfies, at every refined position (top level, in lists, sized lists, unions, tuples, nested nodes), the documented predicate of IntRange, IntList, FloatRange, FloatList, VarRange, ListSizeBetween (both), StringSizeBetween, WeightedStringHandler, IntervalRange, and of Dependent(...) evaluated against the ACTUAL sibling values (one or two dependencies, any naming order) - for every hierarchy with decl_ok, decider, source, context, fuel, and after any sequence of creations; validate() accepts every value generate() produces for all parameters incl. lo == hi; validate() accepts exactly the documented predicate. Tied to /repo by ~470 runs per check: every refinement with boundary parameters at five positions, seven dependent hierarchies, generated hierarchies, and each refinement driven alone (generate from scripted/recorded/gene sources, then validate).",
    note="Trusted: Coq kernel + vm_compute; model; Spec/Sat.v; harness. PARTIAL: float refinements over exact rationals (IEEE rounding at end-points not covered); Dependent(...) for a defunctionalised family of callables; a refinement whose range is empty (lo > hi, possible for dependent ranges) promises nothing. The stack representation is not covered. Known finding F05 (Dependent.validate raises NotImplementedError).",
    design="4 (C02)",
)
CHECKS["C03"] = dict(
    technique="Coq proof (exactness of the distance analysis from C05 gives: an abstract type within budget has a production within budget, a production's fields fit one level deeper; 'safe' predicate transformer over the state-and-error monad; induction on fuel with one lemma per loop; every decider's filter characterised) over the hand-written Gallina model of the deciders and create_node + differential correspondence for every limit from below the minimum upwards + the depth bound and the up-front rejection evaluated on every observed run",
    text="3 theorems (Props/C03.v, closed under the global context): default depth mode, EVERY hierarchy (decl_ok, decl_live: no empty option lists, no refinement that rejects sibling values), every iteration order, every depth-limited decider (grow, full, PI-grow, dynamic SGE) with a limit D its validate() accepted, every random source state and fuel: creation from the start symbol returns a program of depth <= D or fails with an error that is neither AssertionError (the filtered candidate list is never empty) nor SynthesisException; a limit below the grammar's minimum is rejected by the decider's constructor with GeneticEngineError and every limit at or above it is accepted; the decider's pick always fits the remaining budget. Tied to /repo by ~850 runs per check: a family with list-of-abstract fields, unions, nested abstract layers, mutual recursion in both depth modes at every limit 0..6 for the three tree deciders, plus generated hierarchies.",
    note="Trusted: Coq kernel + vm_compute; model; harness. PARTIAL: proved for the default depth mode (expansion-depthing: correspondence and the observed depth bound only) and for creation; closure under mutation/crossover rests on the fact that tree variation regenerates through create_node with a fresh context (known finding F13, see C06) and is exercised, not proved.",
    design="4 (C03)",
)

CHECKS["C11"] = dict(
    technique="Coq proof (custom induction principle over the nested value type; loop lemma for the children fold; unfolding lemmas relating the algorithm's accumulators to the declarative measures) over a hand-written Gallina model of relabel_nodes + differential correspondence on the gengy_* attributes of every node and list of created programs (both depth modes) + the independent traversal evaluated on every observed program",
    text="3 theorems (Props/C11.v, closed under the global context): default depth mode: for EVERY program whose nodes have arguments exactly when their class is a non-terminal (tuples holding base values only), the metadata relabel_nodes computes - node count, distance to the deepest terminal, weighted size - equals the independent traversal (number of non-terminal nodes, height with lists transparent, sum of the heights of all non-terminal nodes), at every node and every list of the program; the boundary is exact: a node inside a tuple field is invisible to its ancestors (refuted instance, known finding F40). Tied to /repo by ~270 programs per check (lists of nodes, nested lists, multi-level abstract hierarchies, unions, tuples; both depth modes; classes reused under the other depth mode first) whose gengy_nodes / gengy_distance_to_term / gengy_weighted_nodes / gengy_types_this_way are read from EVERY node in pre-order and compared with the model and the specification inside Coq.",
    note="Trusted: Coq kernel + vm_compute; hand-written model Model/Labels.v; Spec/LabelSpec.v; harness. PARTIAL: the theorem is for the default depth mode (expansion-depthing: correspondence with the model only); the memoisation on gengy_labeled is not modelled - stale values on reused objects are looked for by observation (creation; mutation/crossover regenerate programs, see C06). Known finding F40 (nodes inside tuple fields are not counted).",
    design="4 (C11)",
)

CHECKS["C06"] = dict(
    technique="Coq proof (list lemmas on firstn/skipn and set_nth; association-list lemmas for keyed genotypes, generic in the key type; membership for tree donors) over a hand-written Gallina model of create/mutate/crossover of all five representations + differential correspondence: every observed operation is re-run in the model on the observed inputs and the answers it drew from the shared source + the recombination / locality contract evaluated on every observed operation",
    text="6 theorems (Props/C06.v, closed under the global context): GE and stack crossover, for ANY cut point and parents of equal length: both children have that length, every gene comes from a parent at the SAME locus and the children are complementary; GE / stack mutation keeps the length and changes at most one gene; SGE / dSGE crossover (any key type): the children have parent 1's keys and under every key one child holds one parent's whole gene list and its sibling the other's; SGE / dSGE mutation keeps keys and lengths and changes at most one gene; tree crossover, when it finds donor material, returns a node of the start symbol's class that occurs in the other parent. Tied to /repo by ~550 operations per check on the real representation objects (gene lengths 1..400, five hierarchies + generated ones, create/map/mutate/crossover sequences).",
    note="Trusted: Coq kernel + vm_compute; hand-written model Model/Linear.v; harness. Known finding F13: tree mutate() always regenerates from the root and tree crossover with an abstract start symbol returns fresh random trees (no parental material): the tree clause of the property holds only when donor material is found (concrete start symbol), which is what the theorem states. The stack representation's crossover cuts at randint(0,255) whatever the gene length (modelled as such).",
    design="4 (C06)",
)
CHECKS["C07"] = dict(
    technique="Coq proof (invariant 'the random source is a reader over the same gene list' for every primitive of the state-and-error monad, lifted through create_node by induction on fuel; a lemma characterising dSGE reads inside the existing genes) over the hand-written Gallina model of GE / SGE / dSGE mapping + differential correspondence of every mapping + pairs of mappings of one genotype, interleaved with unrelated draws, observed on the implementation",
    text="4 theorems (Props/C07.v, closed under the global context): for every grammar, tree decider, genotype and fuel, GE and SGE mapping consult nothing but the genotype's own genes: in every final state (program, failure, backtracking) the random source is still a reader over exactly the same gene list, and the shared search stream is not an argument of the mapping at all; the same invariant for any call of create_node on any gene-backed source; dSGE: a decision inside the existing genes draws nothing from the shared source and leaves the genes untouched. Tied to /repo by ~600 operations per check and all pairs of mappings of one genotype (created, mutated, crossed over) with unrelated draws in between: identical programs, zero answers drawn from the shared source.",
    note="Trusted: Coq kernel + vm_compute; model; harness. PARTIAL: for dynamic SGE the replay property (a second mapping of the extended genotype reproduces the first and draws nothing) is observed on pairs, not proved; the stack representation's mapping is not modelled (pairs observed). Known finding F15: dSGE draws refined fields from the shared stream on every mapping.",
    design="4 (C07)",
)
CHECKS["C09"] = dict(
    technique="Coq proof over a purely functional model (operators are functions from input values to output values; the theorems state the footprint on the persistent operator state) + deep structural snapshots of every existing genotype (program, genes, gengy_* metadata, synthesis contexts) before and after EVERY operation of generated operation sequences on the five representations, results being consumed by later operations",
    text="3 theorems (Props/C09.v, closed under the global context): creation / mutation / crossover of trees never write the grammar's productions shared by all individuals; a mutated codon genotype is a new value agreeing with its parent on all loci but one; a tree crossover child found in the donor is the donor's own sub-node (shared, not rebuilt). The absence of in-place modification of Python objects is not a statement about the functional model: it is OBSERVED - ~570 operations per check, each followed by a comparison of every earlier genotype with its deep snapshot (the only accepted change: dSGE's extension of a genotype by its own mapping).",
    note="PARTIAL: aliasing between Python objects (offspring sharing sub-structures with parents, later operations mutating them) is runtime behaviour the functional Gallina model cannot exhibit; it is exercised by snapshots over operation sequences in which offspring are mapped, mutated and crossed again. Steps and combinators (selection, elitism, novelty) are covered for population size and membership by C15-C17; their inputs are snapshot-checked by the thorough tier only.",
    design="4 (C09)",
)

CHECKS["C08"] = dict(
    technique="Coq proof (order independence of the grammar analysis as a corollary of the exactness theorems of C05; shape-only dependence of registration; gene-only dependence of mapping) + a structural scan of /repo regenerated on every run (every iteration over an address-ordered set must be in the committed, justified inventory) + identical seeded searches run twice per process and in processes differing in PYTHONHASHSEED, allocation before class definition and import order",
    text="3 theorems (Props/C08.v, closed under the global context): for every class hierarchy and ANY two iteration orders of the symbol set (default depth mode) the analysis yields the same registered symbols and productions in the same order, the same recursive set, the same declarations and the same finite minimum depths; registration depends only on the shape of the classes; GE mapping consults only the genes. Tied to /repo by (a) the regenerated inventory of set-iteration sites (15 sites, each with the reason its order cannot matter) and (b) ~30 searches per check (GP, random search, hill climbing, 1+1 x tree, GE, SGE, dSGE, stack x plain, weighted and concrete-start grammars), each run twice in one process and in three processes with different hash seeds, allocation patterns and import orders: identical digest of the sequence of programs handed to the fitness function, identical best program and fitness.",
    note="PARTIAL: memory-address-dependent iteration order and process state are runtime behaviour; the model abstracts them as a permutation parameter (proved irrelevant for the analysis) and the check observes real processes. CPython's random.Random(seed) determinism is trusted. Wall-clock budgets are excluded by the property.",
    design="4 (C08)",
)

ALL = [f"C{n:02d}" for n in range(1, 21)]

m = {
    "version": 1,
    "setup_cmd": "bash /verif/setup.sh",
    "hooks": {
        "guard": "GENETICENGINE_VERIF",
        "enable": "no hooks are compiled into /repo: the harness drives the public API from outside with PYTHONPATH=/repo (GENETICENGINE_VERIF=1 is set for driver subprocesses but nothing in /repo reads it)",
        "baseline_off_cmd": "cd /repo && /venv/bin/python -m pytest -ra -q -p no:cacheprovider --timeout=900 --continue-on-collection-errors",
        "source_commits": [],
        "add_only": True,
    },
    "engines": [
        {"name": "coq-model+correspondence", "path": "/verif/check", "serves_properties": sorted(CHECKS),
         "kind_free_text": "Coq 8.16.1 development (coq/Model, coq/Proofs, coq/Props) + Python differential harness (harness/) evaluating model and spec predicates inside Coq with vm_compute on observations of the implementation"}
    ],
    "checks": [],
    "not_applicable": [],
    "notes": "See DESIGN.md. Fixed defects and known findings: known_findings.json.",
}
for pid in sorted(CHECKS):
    c = CHECKS[pid]
    m["checks"].append({
        "property_id": pid,
        "quick_cmd": f"./check {pid} --tier quick",
        "thorough_cmd": f"./check {pid} --tier thorough",
        "evidence_file": f"/verif/evidence/{pid}.json",
        "replay_cmd_template": f"./check {pid} --replay {{path}}",
        "engine": "coq-model+correspondence",
        "level_claimed": {"category": "proof", "text": c["text"], "design_ref": c["design"]},
        "level_note": c["note"],
        "technique": c["technique"],
    })
for pid in ALL:
    if pid not in CHECKS:
        m["not_applicable"].append({"property_id": pid, "reason": "not claimed yet: model, proofs and correspondence for this property are still being built in this round (the technique applies; see DESIGN.md section 4)"})
json.dump(m, open("/verif/MANIFEST.json", "w"), indent=1)
print("wrote MANIFEST.json with", len(m["checks"]), "checks")
