#!/venv/bin/python
"""Regenerates MANIFEST.json from the table below (kept valid at all times)."""
import json

CHECKS = {
    "C18": dict(
        technique="Coq proof (induction on lists / arithmetic with lia) over a hand-written Gallina model of the random primitives + differential correspondence (cases evaluated by vm_compute) + contract evaluated on implementation outputs",
        text="14 theorems (Props/C18.v, all closed under the global context) state the contracts for every source state, every bound pair and every option/weight list, unboundedly: randint range and totality for gene sources, choice membership, weighted choice never selects a zero-increment option and selects exactly the draws in [acc[i-1],acc[i]), shuffle is a permutation, pop_random removes exactly the returned element, BaseDecider/DynamicSGE integer draws stay in bounds. The model is tied to /repo by running ~2500 generated operations (boundary genes, scripted tapes, exhaustive small spaces) on the real classes and comparing with the model inside Coq on every run.",
        note="Trusted: Coq kernel + vm_compute; hand-written model Model/Tape.v; Python harness (ScriptedSource, generators). Float bounds proved over Q only (partial: IEEE rounding of the last operation not covered). Native source same-seed-same-stream is CPython's contract (exercised). round(log10(w)) modelled on integers.",
        design="4 (C18)",
    ),
}

ALL = [f"C{n:02d}" for n in range(1, 21)]

m = {
    "version": 1,
    "setup_cmd": "bash /verif/setup.sh",
    "hooks": {
        "guard": "GENETICENGINE_VERIF",
        "enable": "no hooks are compiled into /repo: the harness drives the public API from outside with PYTHONPATH=/repo (GENETICENGINE_VERIF=1 is set for driver subprocesses but nothing in /repo reads it)",
        "baseline_off_cmd": "cd /repo && /venv/bin/python -m pytest -ra -q -p no:cacheprovider --timeout=900 --continue-on-collection-errors",
        "source_commits": [],
        "add_only": True,
    },
    "engines": [
        {"name": "coq-model+correspondence", "path": "/verif/check", "serves_properties": sorted(CHECKS),
         "kind_free_text": "Coq 8.16.1 development (coq/Model, coq/Proofs, coq/Props) + Python differential harness (harness/) evaluating model and spec predicates inside Coq with vm_compute on observations of the implementation"}
    ],
    "checks": [],
    "not_applicable": [],
    "notes": "See DESIGN.md. Fixed defects and known findings: known_findings.json.",
}
for pid in sorted(CHECKS):
    c = CHECKS[pid]
    m["checks"].append({
        "property_id": pid,
        "quick_cmd": f"./check {pid} --tier quick",
        "thorough_cmd": f"./check {pid} --tier thorough",
        "evidence_file": f"/verif/evidence/{pid}.json",
        "replay_cmd_template": f"./check {pid} --replay {{path}}",
        "engine": "coq-model+correspondence",
        "level_claimed": {"category": "proof", "text": c["text"], "design_ref": c["design"]},
        "level_note": c["note"],
        "technique": c["technique"],
    })
for pid in ALL:
    if pid not in CHECKS:
        m["not_applicable"].append({"property_id": pid, "reason": "not claimed yet: model, proofs and correspondence for this property are still being built in this round (the technique applies; see DESIGN.md section 4)"})
json.dump(m, open("/verif/MANIFEST.json", "w"), indent=1)
print("wrote MANIFEST.json with", len(m["checks"]), "checks")
