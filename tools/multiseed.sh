#!/usr/bin/env bash
# usage: tools/multiseed.sh "C05 C10 ..." "1 2 3": runs each check's quick tier under each VERIF_SEED, prints non-OK outcomes
home="${VERIF_HOME:-/verif}"
for p in $1; do for s in $2; do
  out=$(cd $home && VERIF_SEED=$s ./check $p --tier quick 2>&1); rc=$?
  if [ $rc -ne 0 ]; then echo "== $p seed=$s rc=$rc"; echo "$out" | grep -E "VIOLATION|HARNESS|Error|  (oracle|correspondence|proof)" | cut -c1-400 | head -6; else echo "ok $p seed=$s"; fi
done; done
