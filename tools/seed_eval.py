#!/venv/bin/python
"""Evaluates seeded mutants produced by independent sub-agents.

usage: seed_eval.py confirm <mutant_dir>...   # scratch worktree: demo passes clean, fails patched, full suite passes patched
       seed_eval.py check   <mutant_dir>...   # apply to /repo, run ./check <prop> --tier quick, revert
Each <mutant_dir> holds patch.diff, demo.py, meta.json (property id inside).  Results are merged into
/verif/seeded/<prop>-<name>/meta.json (patch and demo copied there)."""
import json
import os
import shutil
import subprocess
import sys
import time

PY = "/venv/bin/python"


def sh(cmd, cwd=None, timeout=3600, env=None):
    p = subprocess.run(cmd, cwd=cwd, shell=isinstance(cmd, str), capture_output=True, text=True, timeout=timeout, env=env)
    return p.returncode, p.stdout + p.stderr


def dest(mdir):
    meta = json.load(open(os.path.join(mdir, "meta.json")))
    prop = meta["property"]
    name = os.path.basename(os.path.normpath(mdir))
    d = f"/verif/seeded/{prop}-{name}"
    os.makedirs(d, exist_ok=True)
    for f in ("patch.diff", "demo.py"):
        if not (f == "patch.diff" and os.path.exists(os.path.join(d, "patch.orig.diff"))):   # keep a patch re-based onto the current HEAD
            shutil.copy(os.path.join(mdir, f), os.path.join(d, f))
    mp = os.path.join(d, "meta.json")
    cur = json.load(open(mp)) if os.path.exists(mp) else {}
    for k in ("property", "summary", "needs_to_manifest", "files_touched"):
        cur[k] = meta.get(k)
    cur["breaks_property"] = prop
    cur["agent_reported"] = {k: meta.get(k) for k in ("tests_run", "demo_result_without", "demo_result_with")}
    return d, mp, cur


def confirm(mdir):
    d, mp, cur = dest(mdir)
    wt = f"/tmp/sv_{os.path.basename(d)}_{os.getpid()}"
    sh(f"git -C /repo worktree add --detach {wt} HEAD")
    try:
        env = dict(os.environ, PYTHONPATH=wt, PYTHONDONTWRITEBYTECODE="1")
        shutil.copy(os.path.join(d, "demo.py"), os.path.join(wt, "demo_seed.py"))
        rc0, out0 = sh([PY, "demo_seed.py"], cwd=wt, env=env, timeout=1200)
        rca, outa = sh(f"git apply {d}/patch.diff", cwd=wt)
        rc1, out1 = sh([PY, "demo_seed.py"], cwd=wt, env=env, timeout=1200)
        t0 = time.time()
        rcs, outs = sh([PY, "-m", "pytest", "-q", "-p", "no:cacheprovider", "--timeout=900", "-n", "6", "tests"], cwd=wt, env=env, timeout=3000)
        tail = ([l for l in outs.strip().split("\n") if " passed" in l or " failed" in l] or [outs.strip().split("\n")[-1]])[-1]
        cur["confirmed"] = {
            "head": sh("git -C /repo rev-parse --short HEAD")[1].strip(),
            "patch_applies": rca == 0,
            "demo_clean": {"rc": rc0, "last": out0.strip().split("\n")[-1][:300]},
            "demo_patched": {"rc": rc1, "last": out1.strip().split("\n")[-1][:300]},
            "suite_patched": {"rc": rcs, "summary": tail, "seconds": round(time.time() - t0)},
            "ok": rca == 0 and rc0 == 0 and rc1 != 0 and (rcs == 0 or ("failed" in tail and "test_adaptive" in outs and tail.count("1 failed") == 1)),
            "ran": f"scratch worktree of /repo HEAD: demo.py (clean), git apply patch.diff, demo.py (patched), pytest -n 6 tests",
        }
    finally:
        sh(f"git -C /repo worktree remove --force {wt}")
    json.dump(cur, open(mp, "w"), indent=1)
    print(os.path.basename(d), "confirmed" if cur["confirmed"]["ok"] else "NOT-CONFIRMED", cur["confirmed"]["suite_patched"]["summary"], flush=True)


def check(mdir, tier="quick"):
    d, mp, cur = dest(mdir)
    prop = cur["property"]
    rc, out = sh("git -C /repo diff --quiet")
    if rc != 0:
        print("repo dirty, abort")
        sys.exit(3)
    rca, outa = sh(f"git -C /repo apply {d}/patch.diff")
    if rca != 0:
        print(os.path.basename(d), prop, "PATCH-DOES-NOT-APPLY", outa.strip()[:200], flush=True)
        return
    try:
        t0 = time.time()
        home = os.environ.get("VERIF_HOME", "/verif")
        rcc, outc = sh(f"./check {prop} --tier {tier}", cwd=home, timeout=3000)
    finally:
        sh("git -C /repo checkout -- .")
    lines = [l for l in outc.split("\n") if l.startswith("VIOLATION") or l.startswith("OK ") or l.startswith("HARNESS")]
    detail = [l for l in outc.split("\n") if l.startswith("  ")][:3]
    cur.setdefault("checks", {})[f"{prop}:{tier}"] = {
        "rc": rcc, "caught": rcc == 1, "lines": lines[:6], "detail": [x[:400] for x in detail], "seconds": round(time.time() - t0),
        "verif_commit": sh("git -C /verif rev-parse --short HEAD")[1].strip(),
    }
    json.dump(cur, open(mp, "w"), indent=1)
    # replays produced by a seeded run are not evidence
    sh(f"rm -rf {home}/replays/{prop}")
    print(os.path.basename(d), prop, "CAUGHT" if rcc == 1 else f"MISSED rc={rcc}", (lines[:1] or [""])[0][:200], flush=True)


if __name__ == "__main__":
    mode = sys.argv[1]
    for m in sys.argv[2:]:
        (confirm if mode == "confirm" else check)(m)
