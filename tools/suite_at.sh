#!/usr/bin/env bash
# usage: suite_at.sh <commit>... : runs the unedited test suite at each /repo commit in a scratch worktree (sequentially), prints one line each
for c in "$@"; do
  wt=/tmp/suite_$c
  git -C /repo worktree add --detach $wt $c >/dev/null 2>&1
  (cd $wt && PYTHONPATH=$wt PYTHONDONTWRITEBYTECODE=1 /venv/bin/python -m pytest -q -p no:cacheprovider --timeout=900 -n 5 tests 2>&1 | grep -E " passed| failed" | tail -1 | sed "s/^/$c: /")
  git -C /repo worktree remove --force $wt
done
