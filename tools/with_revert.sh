#!/usr/bin/env bash
# usage: tools/with_revert.sh <commit> <command...> : runs the command with one /repo commit reverted in the working tree
c=$1; shift
git -C /repo diff --quiet || { echo "repo dirty"; exit 3; }
git -C /repo show $c | git -C /repo apply -R || exit 3
"$@"; rc=$?
git -C /repo checkout -- . ; exit $rc
